// Package c04 decides property C04: the checksum a node reports at every
// position equals a from-scratch checksum of the database's logical pages.
//
// The same predicate (node.Monitors -> ref.ScratchChecksum) also rides on every
// history of the C01, C02, C03, C05, C13-C16 checks; this package adds the
// dedicated generator that walks the database size across the 256-page
// checksum blocks in both journal modes with restarts, checkpoints, drops and
// imports in between, and (thorough) images that contain the lock page.
package c04

import (
	"bytes"
	"context"
	"fmt"
	"os"
	"path/filepath"
	"strings"
	"syscall"
	"testing"
	"time"

	"github.com/superfly/litefs"
	"github.com/superfly/litefs/verif/crash"
	"github.com/superfly/litefs/verif/gen"
	"github.com/superfly/litefs/verif/node"
	"github.com/superfly/litefs/verif/pager"
	"github.com/superfly/litefs/verif/pbt"
	"github.com/superfly/litefs/verif/ref"
	"pgregory.net/rapid"
)

const (
	KSize    = "size"    // a transaction that takes the database to N pages, rewriting W random pages
	KRestart = "restart" // close the store and reopen it on the same directory
	KCkpt    = "ckpt"    // application checkpoint (WAL)
	KRecover = "recover" // LiteFS's own recover (checkpoint / journal rollback)
	KDrop    = "drop"    // unlink the database
	KImport  = "import"  // replace the database with a generated image of N pages
	KFail    = "fail"    // the next call LiteFS makes with this label fails once with EIO (its OS interface exists for this)
)

// Calls of a commit that can be made to fail. Rollback-journal modes: the application gets
// an error and rolls back with the journal it still has. WAL mode: by design LiteFS exits
// (the commit happens in the unlock of the write lock, which cannot report errors) and the
// next start recovers.
var failLabels = []string{
	"os:create:COMMITJOURNAL:LTX", "os:rename:COMMITJOURNAL:LTX", "os:rename:COMMITJOURNAL:LTX",
	"os:remove:INVALIDATEJOURNAL:DELETE", "os:truncate:INVALIDATEJOURNAL:TRUNCATE", "os:openfile:INVALIDATEJOURNAL:PERSIST",
	"os:create:COMMITWAL:LTX", "os:rename:COMMITWAL:LTX",
}

type Step struct {
	Kind   string   `json:"k"`
	N      uint32   `json:"n,omitempty"`
	Writes []uint32 `json:"w,omitempty"`
	Ver    uint32   `json:"v,omitempty"`
	Ckpt   int      `json:"ckpt,omitempty"`
	Rb     bool     `json:"rb,omitempty"`
	At     string   `json:"at,omitempty"`
}

type Plan struct {
	PageSize uint32 `json:"page_size"`
	Mode     string `json:"mode"`
	Compress bool   `json:"lz4"`
	Steps    []Step `json:"steps"`
}

var boundary = []uint32{1, 2, 255, 256, 257, 258, 511, 512, 513, 514, 768, 769}

func genPlan(t *rapid.T) Plan {
	p := Plan{
		PageSize: rapid.SampledFrom([]uint32{512, 512, 512, 1024, 4096}).Draw(t, "page_size"),
		Mode:     rapid.SampledFrom([]string{pager.Delete, pager.Truncate, pager.Persist, pager.WAL, pager.WAL}).Draw(t, "mode"),
		Compress: rapid.Bool().Draw(t, "lz4"),
	}
	n := rapid.IntRange(2, 16).Draw(t, "nsteps")
	for i := 0; i < n; i++ {
		switch k := rapid.IntRange(0, 19).Draw(t, "kind"); {
		case k < 11 || i == 0:
			st := Step{Kind: KSize, N: rapid.SampledFrom(boundary).Draw(t, "n"), Ver: uint32(rapid.IntRange(1, 1<<20).Draw(t, "ver")), Rb: rapid.IntRange(0, 7).Draw(t, "rb") == 0}
			for j := rapid.IntRange(0, 4).Draw(t, "nw"); j > 0; j-- {
				st.Writes = append(st.Writes, uint32(rapid.IntRange(2, 770).Draw(t, "pg")))
			}
			p.Steps = append(p.Steps, st)
		case k < 13:
			p.Steps = append(p.Steps, Step{Kind: KRestart})
		case k < 14:
			p.Steps = append(p.Steps, Step{Kind: KFail, At: rapid.SampledFrom(failLabels).Draw(t, "fail_at")})
		case k < 16:
			p.Steps = append(p.Steps, Step{Kind: KCkpt, Ckpt: rapid.IntRange(0, 3).Draw(t, "ckpt")})
		case k < 17:
			p.Steps = append(p.Steps, Step{Kind: KRecover})
		case k < 18:
			p.Steps = append(p.Steps, Step{Kind: KDrop})
		default:
			p.Steps = append(p.Steps, Step{Kind: KImport, N: rapid.SampledFrom(boundary).Draw(t, "n"), Ver: uint32(rapid.IntRange(1, 1<<20).Draw(t, "ver"))})
		}
	}
	return p
}

func runPlan(c *pbt.Case, p Plan) {
	dir := c.TempDir()
	rec := &crash.Recorder{}
	failAt, fired := "", false
	rec.Fail = func(label string) error {
		if failAt != "" && label == failAt {
			failAt, fired = "", true
			return syscall.EIO
		}
		return nil
	}
	frozen := ""
	open := func() *node.Node {
		n, err := node.NewPrimary(dir, node.Options{Compress: p.Compress, Configure: func(s *litefs.Store) { rec.Store = s; s.OS = rec.WrapOS(s.OS) }})
		if err != nil {
			c.Failf("C04/restart-failed", "opening the store on its data directory: %v", err)
		}
		// Store.Exit is process death: what the directory holds at that instant is what
		// the next start finds (whatever the zombie does afterwards never happened)
		n.OnExit = func(int) {
			if frozen == "" {
				frozen = filepath.Join(c.TempDir(), "at-exit")
				_ = crash.CopyDir(dir, frozen)
			}
		}
		return n
	}
	n := open()
	defer func() { _ = n.Close() }()
	const name = "db"
	model := pager.NewDBModel(name, p.PageSize)
	var conn *pager.Conn
	newConn := func() {
		conn = pager.NewConn(n.M, model, 100)
		conn.JournalMode, conn.Sync = p.Mode, pager.SyncNormal
		if os.Getenv("VERIF_OPLOG") != "" {
			conn.OnOp = func(op string) { fmt.Fprintln(os.Stderr, "OP", op) }
		}
	}
	newConn()
	defer func() { conn.Close() }()
	c.Labelf("mode:%s", p.Mode)

	nontrivial := false
	check := func(i int, what string) {
		if ex := n.Exits(); len(ex) > 0 {
			c.Failf("C04/store-exit", "step %d (%s): Store.Exit(%v)", i, what, ex)
		}
		c.Observe("monitor-evaluations", 1)
		pos := n.Pos(name)
		if n.Store.DB(name) == nil {
			return
		}
		if sig, msg := n.Monitors(name); sig != "" {
			c.Failf(sig, "step %d (%s): %s", i, what, msg)
		}
		if want := model.Img.Checksum(); pos.TXID > 0 && pos.Checksum != want {
			c.Failf("C04/checksum-vs-writer", "step %d (%s): position %s, but the image the writer produced (%d pages) has checksum %016x", i, what, pos, model.Img.N(), want)
		}
	}

	for i, st := range p.Steps {
		c.Notef("step %d %+v", i, st)
		switch st.Kind {
		case KSize:
			tx := pager.WalTx{Tx: pager.Tx{NewSize: st.N, Fill: byte(st.Ver), Rollback: st.Rb && model.Img.N() > 0}}
			for _, w := range st.Writes {
				tx.Writes = append(tx.Writes, pager.Write{Pgno: w, Ver: st.Ver})
			}
			before := model.Img.N()
			posBefore := n.Pos(name)
			imgBefore, changeBefore, modeBefore := model.Img, model.Change, model.Mode
			var res pager.TxResult
			var err error
			if p.Mode == pager.WAL {
				if model.Img.N() == 0 || model.Img.Page(1)[18] != 2 {
					tx.Rollback = false
					res, err = conn.SwitchToWAL(tx.Tx)
				} else {
					res, err = conn.ExecWALTx(tx)
				}
			} else {
				res, err = conn.ExecRollbackTx(tx.Tx)
			}
			failAt = "" // (a label this transaction did not reach)
			if fired {
				// the injected failure hit this transaction
				fired = false
				c.Labelf("commit-failed-at:%s", strings.TrimPrefix(st0(p.Steps, i), "os:"))
				nontrivial = true
				if ex := n.Exits(); len(ex) > 0 {
					if p.Mode != pager.WAL {
						c.Failf("C04/store-exit", "step %d: Store.Exit(%v) after a failed rollback-journal commit", i, ex)
					}
					// process death: the next start recovers from the files
					conn.Close()
					_ = n.Close()
					dir, frozen = frozen, ""
					n = open()
					model.Wal = pager.WalIndex{}
					newConn()
					// LiteFS recovers to its newest transaction file: the transaction is there
					// or it is not, and the position says which
					if after := n.Pos(name); after != posBefore {
						if after.TXID != posBefore.TXID+1 || res.Attempt == nil || tx.Rollback {
							c.Failf("C04/restart-position", "step %d: position %s before the failed commit, %s after the restart", i, posBefore, after)
						}
						model.Img = res.Attempt
						if model.Change == changeBefore {
							model.Change++
						}
					} else {
						model.Img, model.Change, model.Mode = imgBefore, changeBefore, modeBefore
					}
					c.Label("restart-after-exit")
				} else {
					// the application rolls back with the journal it still has (also the
					// transaction that takes a new database into WAL mode has one)
					if err := conn.RollbackFailedCommit(); err != nil {
						c.Failf("C04/op-error", "step %d: rollback after the failed commit refused: %v", i, err)
					}
				}
				check(i, "failed commit")
				break
			}
			if err != nil {
				c.Failf("C04/op-error", "step %d: transaction refused: %v", i, err)
			}
			if res.Committed && model.Img.N() != before {
				c.Labelf("size-change")
				nontrivial = true
				if (model.Img.N()-1)/256 != (before-1)/256 && before > 0 {
					c.Label("crosses-block")
				}
			}
			check(i, "tx")
		case KFail:
			if i+1 < len(p.Steps) && p.Steps[i+1].Kind == KSize {
				failAt = st.At
			}
		case KRestart:
			before := n.Pos(name)
			conn.Close()
			if err := n.Close(); err != nil {
				c.Failf("C04/close-error", "step %d: %v", i, err)
			}
			n = open()
			model.Wal = pager.WalIndex{}
			newConn()
			if after := n.Pos(name); after != before && before.TXID > 0 {
				c.Failf("C04/restart-changed-position", "step %d: position %s before restart, %s after", i, before, after)
			}
			c.Label("restart")
			nontrivial = true
			check(i, "restart")
		case KCkpt:
			if p.Mode == pager.WAL && model.Img.N() > 0 && model.Img.Page(1)[18] == 2 {
				if _, err := conn.Checkpoint(st.Ckpt); err != nil {
					c.Failf("C04/op-error", "step %d: checkpoint refused: %v", i, err)
				}
				c.Label("checkpoint")
				if model.Wal.MxFrame > 0 {
					c.Label("wal-overlay")
					nontrivial = true
				}
				check(i, "ckpt")
			}
		case KRecover:
			if db := n.Store.DB(name); db != nil {
				if model.Wal.MxFrame > 0 {
					c.Label("wal-overlay")
					nontrivial = true
				}
				ctx, cancel := context.WithTimeout(context.Background(), time.Second)
				err := db.Recover(ctx)
				cancel()
				if err != nil {
					c.Failf("C04/recover-error", "step %d: %v", i, err)
				}
				check(i, "recover")
			}
		case KDrop:
			if model.Img.N() == 0 {
				break
			}
			before := n.Pos(name)
			conn.Close()
			if err := n.M.Remove(name); err != nil {
				c.Failf("C04/op-error", "step %d: unlink of the database refused: %v", i, err)
			}
			model.Img, model.Wal = ref.NewImage(p.PageSize), pager.WalIndex{}
			newConn()
			after := n.Pos(name)
			if after.TXID != before.TXID+1 || after.Checksum != ref.ChecksumFlag {
				c.Failf("C04/drop-checksum", "step %d: drop took the position from %s to %s; want txid+1 and exactly the empty checksum", i, before, after)
			}
			c.Label("drop")
			nontrivial = true
			check(i, "drop")
		case KImport:
			mode := ref.ModeRollback
			if p.Mode == pager.WAL {
				mode = ref.ModeWAL
			}
			img := gen.ImportImage(p.PageSize, mode, st.N, st.Ver)
			db, err := n.Store.CreateDBIfNotExists(name)
			if err != nil {
				c.Failf("C04/op-error", "step %d: %v", i, err)
			}
			conn.Close()
			if err := db.Import(context.Background(), bytes.NewReader(img.Bytes())); err != nil {
				c.Failf("C04/import-error", "step %d: import of a valid %d-page image refused: %v", i, st.N, err)
			}
			model.Img, model.Wal, model.Change = gen.AfterImport(img), pager.WalIndex{}, 0
			newConn()
			c.Label("import")
			nontrivial = true
			check(i, "import")
		}
	}
	if nontrivial {
		c.NonTrivial()
	}
}

// st0 returns the label of the most recent KFail step before step i.
func st0(steps []Step, i int) string {
	for j := i - 1; j >= 0; j-- {
		if steps[j].Kind == KFail {
			return steps[j].At
		}
	}
	return ""
}

var sizesProp = pbt.Prop[Plan]{ID: "C04", Name: "sizes", Gen: genPlan, Run: runPlan}

func TestProp_sizes(t *testing.T) { sizesProp.Check(t) }

// TestLockPage (thorough only) builds databases that contain SQLite's lock page
// (1 GiB into the file) with 64 KiB pages, in both journal modes, modifies pages
// on both sides of it, shrinks below it, restarts, and evaluates the monitor
// after every step.
func TestLockPage(t *testing.T) {
	defer pbt.Flush()
	if !pbt.Thorough() {
		t.Skip("thorough tier only")
	}
	lock := ref.LockPgno(65536)
	for _, mode := range []string{pager.Delete, pager.WAL} {
		plan := Plan{PageSize: 65536, Mode: mode, Compress: true, Steps: []Step{
			{Kind: KSize, N: lock + 1, Ver: 1},
			{Kind: KSize, N: lock + 1, Ver: 2, Writes: []uint32{lock - 1, lock, lock + 1, 2}},
			{Kind: KRestart},
			{Kind: KSize, N: lock + 3, Ver: 3, Writes: []uint32{lock + 2}},
			{Kind: KCkpt, Ckpt: 3},
			{Kind: KSize, N: lock - 2, Ver: 4},
			{Kind: KRestart},
		}}
		lockProp.RunPlan(t, plan)
	}
}

var lockProp = pbt.Prop[Plan]{ID: "C04", Name: "lockpage", Run: func(c *pbt.Case, p Plan) {
	runPlan(c, p)
	c.Label("contains-lock-page")
	c.NonTrivial()
}}

func TestReplay(t *testing.T) { pbt.Replay(t, sizesProp, lockProp) }
