// Package c12 decides property C12: every LiteFS advisory lock (litefs.RWMutex
// and its guards) obeys reader/writer semantics with upgrade and downgrade.
package c12

import (
	"context"
	"errors"
	"fmt"
	"sync"
	"testing"
	"time"

	"github.com/anishathalye/porcupine"
	"github.com/superfly/litefs"
	"github.com/superfly/litefs/verif/pbt"
	"pgregory.net/rapid"
)

// ---- specification (three lines per operation, written from POSIX rules) ----

type ownerState = litefs.RWMutexState

const (
	U = litefs.RWMutexStateUnlocked
	S = litefs.RWMutexStateShared
	X = litefs.RWMutexStateExclusive
)

type spec []ownerState

func (s spec) otherExclusive(o int) bool {
	for i, v := range s {
		if i != o && v == X {
			return true
		}
	}
	return false
}

func (s spec) otherHolder(o int) bool {
	for i, v := range s {
		if i != o && v != U {
			return true
		}
	}
	return false
}

func (s spec) canRLock(o int) bool { return !s.otherExclusive(o) }
func (s spec) canLock(o int) bool  { return !s.otherHolder(o) }

func (s spec) mutexState() ownerState {
	st := U
	for _, v := range s {
		if v == X {
			return X
		} else if v == S {
			st = S
		}
	}
	return st
}

const (
	OpTryRLock = 0
	OpTryLock  = 1
	OpUnlock   = 2
)

var opNames = []string{"TryRLock", "TryLock", "Unlock"}

// apply returns the expected result of the operation and mutates the spec.
func (s spec) apply(o, op int) bool {
	switch op {
	case OpTryRLock:
		if s.canRLock(o) {
			s[o] = S
			return true
		}
		return false
	case OpTryLock:
		if s.canLock(o) {
			s[o] = X
			return true
		}
		return false
	default:
		s[o] = U
		return true
	}
}

// ---- sequential plans ----

type Step struct {
	Owner int `json:"o"`
	Op    int `json:"op"`
}

type SeqPlan struct {
	Owners int    `json:"owners"`
	Steps  []Step `json:"steps"`
}

// runSeq executes the plan against a fresh RWMutex and the spec, checking every
// observable after every step. It returns a description of the first
// disagreement, or "".
func runSeq(p SeqPlan, refused, updown *bool) string {
	var rw litefs.RWMutex
	var transitions [][2]litefs.RWMutexState
	rw.OnLockStateChange = func(prev, next litefs.RWMutexState) {
		transitions = append(transitions, [2]litefs.RWMutexState{prev, next})
	}
	guards := make([]litefs.RWMutexGuard, p.Owners)
	for i := range guards {
		guards[i] = rw.Guard()
	}
	s := make(spec, p.Owners)

	for i, st := range p.Steps {
		o := st.Owner
		before := append(spec(nil), s...)
		prevMutex := s.mutexState()

		// Can* must predict what the next Try* returns.
		wantCanLock, wantCanRLock := s.canLock(o), s.canRLock(o)
		if got, mstate := guards[o].CanLock(); got != wantCanLock {
			return fmt.Sprintf("step %d: owner %d CanLock()=%v, spec %v (states %v)", i, o, got, wantCanLock, s)
		} else if mstate != prevMutex {
			return fmt.Sprintf("step %d: CanLock() reports mutex state %v, spec %v", i, mstate, prevMutex)
		}
		if got := guards[o].CanRLock(); got != wantCanRLock {
			return fmt.Sprintf("step %d: owner %d CanRLock()=%v, spec %v (states %v)", i, o, got, wantCanRLock, s)
		}

		want := s.apply(o, st.Op)
		nTrans := len(transitions)
		var got bool
		switch st.Op {
		case OpTryRLock:
			got = guards[o].TryRLock()
		case OpTryLock:
			got = guards[o].TryLock()
		default:
			guards[o].Unlock()
			got = true
		}
		if got != want {
			return fmt.Sprintf("step %d: owner %d %s returned %v, spec %v (states before %v)", i, o, opNames[st.Op], got, want, before)
		}
		if !want {
			*refused = true
		}
		if (before[o] == S && s[o] == X) || (before[o] == X && s[o] == S) {
			*updown = true
		}

		// Every guard and the mutex must be in the specified state; a failed
		// attempt therefore changed nothing, and an unlock of an unheld lock too.
		nx, ns := 0, 0
		for j := range guards {
			if g := guards[j].State(); g != s[j] {
				return fmt.Sprintf("step %d: after owner %d %s: guard %d state %v, spec %v", i, o, opNames[st.Op], j, g, s[j])
			}
			switch s[j] {
			case X:
				nx++
			case S:
				ns++
			}
		}
		if nx > 1 || (nx == 1 && ns > 0) {
			return fmt.Sprintf("step %d: spec itself reached exclusive+other holder %v", i, s)
		}
		if m := rw.State(); m != s.mutexState() {
			return fmt.Sprintf("step %d: mutex state %v, spec %v (owners %v)", i, m, s.mutexState(), s)
		}
		// The state-change callback fires exactly when the mutex state changes.
		if prevMutex != s.mutexState() {
			if len(transitions) != nTrans+1 || transitions[nTrans] != [2]litefs.RWMutexState{prevMutex, s.mutexState()} {
				return fmt.Sprintf("step %d: expected one state-change callback %v->%v, got %v", i, prevMutex, s.mutexState(), transitions[nTrans:])
			}
		} else if len(transitions) != nTrans {
			return fmt.Sprintf("step %d: unexpected state-change callback %v", i, transitions[nTrans:])
		}
	}
	return ""
}

var seqProp = pbt.Prop[SeqPlan]{
	ID: "C12", Name: "seq",
	Gen: func(t *rapid.T) SeqPlan {
		p := SeqPlan{Owners: rapid.IntRange(1, 4).Draw(t, "owners")}
		n := rapid.IntRange(1, 300).Draw(t, "n")
		for i := 0; i < n; i++ {
			p.Steps = append(p.Steps, Step{
				Owner: rapid.IntRange(0, p.Owners-1).Draw(t, "o"),
				Op:    rapid.IntRange(0, 2).Draw(t, "op"),
			})
		}
		return p
	},
	Run: func(c *pbt.Case, p SeqPlan) {
		var refused, updown bool
		if msg := runSeq(p, &refused, &updown); msg != "" {
			c.Failf("C12/seq/spec-disagreement", "%s", msg)
		}
		if refused {
			c.Label("refused-attempt")
		}
		if updown {
			c.Label("upgrade-or-downgrade")
		}
		if refused || updown {
			c.NonTrivial()
		}
	},
}

func TestProp_seq(t *testing.T) { seqProp.Check(t) }

// TestExhaustive enumerates every operation sequence of the maximal length for
// 2, 3 and 4 owners (all shorter sequences are prefixes of those and are
// checked step by step on the way).
func TestExhaustive(t *testing.T) {
	defer pbt.Flush()
	bounds := map[int]int{2: 7, 3: 6, 4: 5}
	if pbt.Thorough() {
		bounds = map[int]int{1: 8, 2: 9, 3: 7, 4: 6}
	}
	shard, shards := pbt.Shard()
	var total int64
	for owners := 1; owners <= 4; owners++ {
		length, ok := bounds[owners]
		if !ok {
			continue
		}
		acts := owners * 3
		n := 1
		for i := 0; i < length; i++ {
			n *= acts
		}
		total += int64(n)
		steps := make([]Step, length)
		for idx := shard; idx < n; idx += shards {
			v := idx
			for i := length - 1; i >= 0; i-- {
				a := v % acts
				v /= acts
				steps[i] = Step{Owner: a / 3, Op: a % 3}
			}
			p := SeqPlan{Owners: owners, Steps: append([]Step(nil), steps...)}
			exhaustiveProp.RunPlan(t, p)
		}
	}
	pbt.MarkExhaustive("C12", "exhaustive", total)
}

var exhaustiveProp = pbt.Prop[SeqPlan]{ID: "C12", Name: "exhaustive", Run: seqProp.Run}

// ---- concurrent histories, linearizability against the spec (porcupine) ----

type ConcPlan struct {
	Owners int      `json:"owners"`
	Ops    [][]int  `json:"ops"` // per owner: sequence of ops
	Yield  [][]bool `json:"yield"`
}

type lockInput struct {
	owner, op int
}

func lockModel(owners int) porcupine.Model {
	return porcupine.Model{
		Init: func() interface{} { return string(make([]byte, owners)) },
		Step: func(state, input, output interface{}) (bool, interface{}) {
			s := spec(nil)
			for _, b := range []byte(state.(string)) {
				s = append(s, ownerState(b))
			}
			in := input.(lockInput)
			want := s.apply(in.owner, in.op)
			if want != output.(bool) {
				return false, state
			}
			b := make([]byte, len(s))
			for i, v := range s {
				b[i] = byte(v)
			}
			return true, string(b)
		},
		Equal: func(a, b interface{}) bool { return a.(string) == b.(string) },
		DescribeOperation: func(input, output interface{}) string {
			in := input.(lockInput)
			return fmt.Sprintf("o%d.%s=%v", in.owner, opNames[in.op], output)
		},
	}
}

var concProp = pbt.Prop[ConcPlan]{
	ID: "C12", Name: "concurrent",
	Gen: func(t *rapid.T) ConcPlan {
		p := ConcPlan{Owners: rapid.IntRange(2, 8).Draw(t, "owners")}
		for o := 0; o < p.Owners; o++ {
			n := rapid.IntRange(1, 12).Draw(t, "n")
			ops := make([]int, n)
			ys := make([]bool, n)
			for i := range ops {
				ops[i] = rapid.IntRange(0, 2).Draw(t, "op")
				ys[i] = rapid.Bool().Draw(t, "yield")
			}
			p.Ops = append(p.Ops, ops)
			p.Yield = append(p.Yield, ys)
		}
		return p
	},
	Run: func(c *pbt.Case, p ConcPlan) {
		var rw litefs.RWMutex
		guards := make([]litefs.RWMutexGuard, p.Owners)
		for i := range guards {
			guards[i] = rw.Guard()
		}
		var mu sync.Mutex
		var history []porcupine.Operation
		var clock int64
		tick := func() int64 { mu.Lock(); defer mu.Unlock(); clock++; return clock }

		start := make(chan struct{})
		var wg sync.WaitGroup
		for o := 0; o < p.Owners; o++ {
			o := o
			wg.Add(1)
			go func() {
				defer wg.Done()
				<-start
				for i, op := range p.Ops[o] {
					if p.Yield[o][i] {
						time.Sleep(time.Microsecond)
					}
					call := tick()
					var out bool
					switch op {
					case OpTryRLock:
						out = guards[o].TryRLock()
					case OpTryLock:
						out = guards[o].TryLock()
					default:
						guards[o].Unlock()
						out = true
					}
					ret := tick()
					mu.Lock()
					history = append(history, porcupine.Operation{ClientId: o, Input: lockInput{o, op}, Call: call, Output: out, Return: ret})
					mu.Unlock()
				}
			}()
		}
		close(start)
		wg.Wait()

		res := porcupine.CheckOperationsTimeout(lockModel(p.Owners), history, 20*time.Second)
		if res == porcupine.Illegal {
			c.Failf("C12/concurrent/not-linearizable", "history of %d operations by %d owners is not linearizable against the reader/writer spec: %v", len(history), p.Owners, describe(history))
		}
		refused := false
		for _, h := range history {
			if !h.Output.(bool) {
				refused = true
			}
		}
		if refused {
			c.Label("refused-attempt")
			c.NonTrivial()
		}
		if res == porcupine.Unknown {
			c.Label("linearizability-check-timed-out")
		}
		// Final state must equal a state reachable by the spec: release all and
		// require the mutex to be unlocked.
		for i := range guards {
			guards[i].Unlock()
		}
		if st := rw.State(); st != U {
			c.Failf("C12/concurrent/leak", "mutex state %v after every owner unlocked", st)
		}
	},
}

func describe(h []porcupine.Operation) string {
	s := ""
	for _, op := range h {
		in := op.Input.(lockInput)
		s += fmt.Sprintf("[%d-%d o%d.%s=%v] ", op.Call, op.Return, in.owner, opNames[in.op], op.Output)
	}
	return s
}

func TestProp_concurrent(t *testing.T) { concProp.Check(t) }

// ---- blocking variants ----

type BlockPlan struct {
	HolderExclusive bool `json:"holder_exclusive"` // the conflicting holder holds exclusive (else shared)
	WaiterExclusive bool `json:"waiter_exclusive"` // the waiter calls Lock (else RLock)
	ExtraShared     int  `json:"extra_shared"`     // additional shared holders beside the first
	Cancel          bool `json:"cancel"`           // cancel the waiter instead of releasing
	DelayUS         int  `json:"delay_us"`
	WaiterStart     int  `json:"waiter_start"` // waiter's own initial state: 0 unlocked, 1 shared (upgrade)
}

var errCause = errors.New("c12 cancel cause")

var blockProp = pbt.Prop[BlockPlan]{
	ID: "C12", Name: "blocking",
	Gen: func(t *rapid.T) BlockPlan {
		return BlockPlan{
			HolderExclusive: rapid.Bool().Draw(t, "hx"),
			WaiterExclusive: rapid.Bool().Draw(t, "wx"),
			ExtraShared:     rapid.IntRange(0, 2).Draw(t, "extra"),
			Cancel:          rapid.Bool().Draw(t, "cancel"),
			DelayUS:         rapid.IntRange(0, 400).Draw(t, "delay"),
			WaiterStart:     rapid.IntRange(0, 1).Draw(t, "ws"),
		}
	},
	Run: func(c *pbt.Case, p BlockPlan) {
		var rw litefs.RWMutex
		holder := rw.Guard()
		waiter := rw.Guard()
		extras := make([]litefs.RWMutexGuard, p.ExtraShared)
		for i := range extras {
			extras[i] = rw.Guard()
		}
		s := make(spec, 2+p.ExtraShared) // 0 holder, 1 waiter, 2.. extras

		if p.WaiterStart == 1 && !p.HolderExclusive {
			waiter.TryRLock()
			s[1] = S
		}
		if p.HolderExclusive {
			if !holder.TryLock() {
				c.Failf("C12/blocking/setup", "holder could not lock an unlocked mutex")
			}
			s[0] = X
		} else {
			if !holder.TryRLock() {
				c.Failf("C12/blocking/setup", "holder could not rlock")
			}
			s[0] = S
			for i := range extras {
				extras[i].TryRLock()
				s[2+i] = S
			}
		}
		op := OpTryRLock
		if p.WaiterExclusive {
			op = OpTryLock
		}
		conflict := (op == OpTryRLock && !s.canRLock(1)) || (op == OpTryLock && !s.canLock(1))
		if conflict {
			c.Label("conflict")
			c.NonTrivial()
		}
		if p.Cancel {
			c.Label("cancel")
		}
		before := append(spec(nil), s...)

		ctx, cancel := context.WithCancelCause(context.Background())
		defer cancel(nil)
		done := make(chan error, 1)
		go func() {
			if p.WaiterExclusive {
				done <- waiter.Lock(ctx)
			} else {
				done <- waiter.RLock(ctx)
			}
		}()

		if !conflict {
			select {
			case err := <-done:
				if err != nil {
					c.Failf("C12/blocking/no-conflict-error", "blocking acquire without conflict returned %v", err)
				}
			case <-time.After(20 * time.Second):
				c.Failf("C12/blocking/hang", "blocking acquire without conflict did not return in 20s")
			}
			return
		}

		time.Sleep(time.Duration(p.DelayUS) * time.Microsecond)
		select {
		case err := <-done:
			c.Failf("C12/blocking/early-return", "blocking acquire returned %v while a conflicting holder exists (states %v)", err, before)
		default:
		}

		if p.Cancel {
			cancel(errCause)
			select {
			case err := <-done:
				if !errors.Is(err, errCause) {
					c.Failf("C12/blocking/cancel-cause", "cancelled acquire returned %v, want the context's cause", err)
				}
			case <-time.After(20 * time.Second):
				c.Failf("C12/blocking/hang", "cancelled blocking acquire did not return in 20s")
			}
			if g := waiter.State(); g != before[1] {
				c.Failf("C12/blocking/cancel-state", "waiter state %v after cancellation, want unchanged %v", g, before[1])
			}
			if g := holder.State(); g != before[0] {
				c.Failf("C12/blocking/cancel-state", "holder state %v after waiter cancellation, want %v", g, before[0])
			}
			return
		}

		holder.Unlock()
		for i := range extras {
			extras[i].Unlock()
		}
		select {
		case err := <-done:
			if err != nil {
				c.Failf("C12/blocking/release-error", "acquire after release returned %v", err)
			}
		case <-time.After(20 * time.Second):
			c.Failf("C12/blocking/hang", "blocking acquire did not return within 20s of the lock becoming available")
		}
		want := S
		if p.WaiterExclusive {
			want = X
		}
		if g := waiter.State(); g != want {
			c.Failf("C12/blocking/final-state", "waiter state %v after acquire, want %v", g, want)
		}
		if m := rw.State(); m != want {
			c.Failf("C12/blocking/final-state", "mutex state %v after acquire, want %v", m, want)
		}
	},
}

func TestProp_blocking(t *testing.T) { blockProp.Check(t) }

func TestReplay(t *testing.T) { pbt.Replay(t, seqProp, exhaustiveProp, concProp, blockProp) }
