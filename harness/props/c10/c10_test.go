// Package c10 decides property C10: a completed snapshot or export is the image
// of exactly one position.
//
// The schedule is owned by the harness: the operation under test runs in the
// test goroutine and, at the n-th occurrence of a chosen advisory-lock state
// transition (reported outside the mutex by the verif lock hook), a generated
// list of foreign-connection actions runs synchronously inside the callback.
// LiteFS's lock calls are try-locks with polling, so injected actions never
// block: they succeed or get SQLITE_BUSY exactly as a concurrent SQLite would.
package c10

import (
	"bytes"
	"context"
	"fmt"
	"io"
	"net/http"
	"sync"
	"testing"
	"time"

	"github.com/superfly/litefs"
	lhttp "github.com/superfly/litefs/http"
	"github.com/superfly/litefs/verif/gen"
	"github.com/superfly/litefs/verif/node"
	"github.com/superfly/litefs/verif/pager"
	"github.com/superfly/litefs/verif/pbt"
	"github.com/superfly/litefs/verif/ref"
	"pgregory.net/rapid"
)

const name = "db"

// Action kinds of the foreign connections.
const (
	ACommit  = "commit"
	ACkpt    = "ckpt"
	ARecover = "litefs-recover"
)

type Action struct {
	Kind string      `json:"k"`
	Tx   pager.WalTx `json:"tx,omitempty"`
	Ckpt int         `json:"ckpt,omitempty"`
}

// Injection: when lock Lock changes state for the Occ-th time during the
// operation, run Actions.
type Injection struct {
	Lock    int      `json:"lock"` // index into litefs.VerifLockTypes
	Occ     int      `json:"occ"`  // 1-based occurrence
	Actions []Action `json:"actions"`
}

type Plan struct {
	PageSize uint32        `json:"page_size"`
	Mode     string        `json:"mode"`
	Op       string        `json:"op"` // snapshot, export, http-export
	Setup    []pager.WalTx `json:"setup"`
	SetupCkpt int          `json:"setup_ckpt"`
	Inject   []Injection   `json:"inject"`
}

func genPlan(t *rapid.T) Plan {
	p := Plan{
		PageSize:  rapid.SampledFrom([]uint32{512, 1024}).Draw(t, "page_size"),
		Mode:      rapid.SampledFrom([]string{pager.Delete, pager.WAL, pager.WAL, pager.WAL}).Draw(t, "mode"),
		Op:        rapid.SampledFrom([]string{"snapshot", "export", "export", "http-export"}).Draw(t, "op"),
		SetupCkpt: rapid.IntRange(-1, 3).Draw(t, "setup_ckpt"),
	}
	ns := rapid.IntRange(3, 5).Draw(t, "nsetup")
	ni := rapid.IntRange(1, 3).Draw(t, "ninject")
	txs := gen.Txs(t, ns+ni*3, 30)
	for _, tx := range txs[:ns] {
		wt := pager.WalTx{Tx: tx}
		wt.Rollback, wt.NoWrite = false, false
		p.Setup = append(p.Setup, wt)
	}
	k := ns
	for i := 0; i < ni; i++ {
		in := Injection{
			Lock: rapid.IntRange(0, 11).Draw(t, "lock"),
			Occ:  rapid.IntRange(1, 2).Draw(t, "occ"),
		}
		na := rapid.IntRange(1, 3).Draw(t, "nactions")
		for j := 0; j < na; j++ {
			switch a := rapid.IntRange(0, 9).Draw(t, "action"); {
			case a < 6:
				wt := pager.WalTx{Tx: txs[k%len(txs)]}
				wt.NoWrite = false
				k++
				in.Actions = append(in.Actions, Action{Kind: ACommit, Tx: wt})
			case a < 9:
				in.Actions = append(in.Actions, Action{Kind: ACkpt, Ckpt: rapid.IntRange(0, 3).Draw(t, "ckpt")})
			default:
				in.Actions = append(in.Actions, Action{Kind: ARecover})
			}
		}
		p.Inject = append(p.Inject, in)
	}
	return p
}

func runPlan(c *pbt.Case, p Plan) {
	dir := c.TempDir()
	n, err := node.NewPrimary(dir, node.Options{})
	if err != nil {
		c.Failf("C10/setup", "%v", err)
	}
	c.Cleanup(func() { _ = n.Close() })
	model := pager.NewDBModel(name, p.PageSize)
	writer := pager.NewConn(n.M, model, 100)
	writer.JournalMode, writer.Sync = p.Mode, pager.SyncOff
	writer.BusyTimeout = 200 * time.Microsecond // injected actions never wait: busy is an answer
	defer func() { writer.Close() }()
	hist := ref.NewHistory()
	exec := func(tx pager.WalTx) (pager.TxResult, error) {
		if p.Mode == pager.WAL {
			if model.Img.N() == 0 || model.Img.Page(1)[18] != 2 {
				t := tx.Tx
				t.Rollback, t.NoWrite, t.SpillAfter = false, false, 0
				return writer.SwitchToWAL(t)
			}
			return writer.ExecWALTx(tx)
		}
		return writer.ExecRollbackTx(tx.Tx)
	}
	record := func() {
		if err := hist.Record(name, n.Pos(name), model.Img); err != nil {
			c.Failf("C10/harness", "%v", err)
		}
	}
	for i, tx := range p.Setup {
		if _, err := exec(tx); err != nil {
			c.Failf("C10/setup", "setup transaction %d: %v", i, err)
		}
		record()
	}
	if p.Mode == pager.WAL && p.SetupCkpt >= 0 {
		_, _ = writer.Checkpoint(p.SetupCkpt)
	}
	db := n.Store.DB(name)
	c.Labelf("mode:%s", p.Mode)
	c.Labelf("op:%s", p.Op)

	// ---- schedule injection ----
	var mu sync.Mutex
	counts := map[int]int{}
	inside := false
	active := false
	effective := 0 // injected commits / checkpoints that actually succeeded
	positions := map[ref.Pos]bool{n.Pos(name): true}
	var trace []string
	litefs.SetVerifLockHook(func(hdb *litefs.DB, lt litefs.LockType, prev, next litefs.RWMutexState) {
		if hdb != db {
			return
		}
		mu.Lock()
		if !active || inside {
			mu.Unlock()
			return
		}
		idx := -1
		for i, t := range litefs.VerifLockTypes {
			if t == lt {
				idx = i
			}
		}
		counts[idx]++
		occ := counts[idx]
		var todo []Action
		for _, in := range p.Inject {
			if in.Lock == idx && in.Occ == occ {
				todo = append(todo, in.Actions...)
			}
		}
		if len(todo) == 0 {
			mu.Unlock()
			return
		}
		inside = true
		mu.Unlock()
		trace = append(trace, fmt.Sprintf("at %s %v->%v (#%d):", lt, prev, next, occ))
		for _, a := range todo {
			switch a.Kind {
			case ACommit:
				res, err := exec(a.Tx)
				trace = append(trace, fmt.Sprintf("  commit -> committed=%v err=%v pos=%s", res.Committed, err, n.Pos(name)))
				// whatever happened, the model holds the image SQLite regards as committed: a
				// rolled-back or abandoned transaction may still consume a TXID (same image)
				if n.Pos(name) != (ref.Pos{}) {
					record()
				}
				if err == nil && res.Committed {
					effective++
				}
				if err != nil && err != pager.ErrBusy {
					// a refused operation leaves the connection unusable: reopen it
					writer.Close()
					model.Wal = pager.WalIndex{}
				}
			case ACkpt:
				if p.Mode == pager.WAL && model.Img.N() > 0 && model.Img.Page(1)[18] == 2 {
					res, err := writer.Checkpoint(a.Ckpt)
					trace = append(trace, fmt.Sprintf("  checkpoint(%d) -> %+v err=%v", a.Ckpt, res, err))
					if err == nil && res.Backfilled > 0 {
						effective++
					}
				}
			case ARecover:
				ctx, cancel := context.WithTimeout(context.Background(), time.Millisecond)
				err := db.Recover(ctx)
				cancel()
				trace = append(trace, fmt.Sprintf("  litefs recover -> %v", err))
				if err == nil {
					effective++
				}
			}
			positions[n.Pos(name)] = true
		}
		mu.Lock()
		inside = false
		mu.Unlock()
	})
	c.Cleanup(func() { litefs.SetVerifLockHook(nil) })

	// ---- the operation under test ----
	var pos ref.Pos
	var got *ref.Image
	var opErr error
	ctx, cancel := context.WithTimeout(context.Background(), 5*time.Second)
	defer cancel()
	mu.Lock()
	active = true
	mu.Unlock()
	switch p.Op {
	case "snapshot":
		var buf bytes.Buffer
		hdr, trailer, err := db.WriteSnapshotTo(ctx, &buf)
		opErr = err
		if err == nil {
			pos = ref.Pos{TXID: uint64(hdr.MaxTXID), Checksum: uint64(trailer.PostApplyChecksum)}
			f, derr := ref.DecodeLTX(bytes.NewReader(buf.Bytes()))
			if derr != nil {
				c.Failf("C10/snapshot-undecodable", "a successfully written snapshot does not decode: %v", derr)
			}
			got = ref.NewImage(f.Header.PageSize).Apply(f)
		}
	case "export":
		var buf bytes.Buffer
		lp, err := db.Export(ctx, &buf)
		opErr = err
		if err == nil {
			pos = ref.PosOf(lp)
			got = ref.ImageFromBytes(p.PageSize, buf.Bytes())
		}
	default:
		// GET /export on the node's real HTTP server (the handler streams DB.Export
		// into the response)
		srv := lhttp.NewServer(n.Store, "127.0.0.1:0")
		if err := srv.Listen(); err != nil {
			c.Failf("C10/setup", "%v", err)
		}
		srv.Serve()
		req, _ := http.NewRequestWithContext(ctx, "GET", srv.URL()+"/export?name="+name, nil)
		resp, err := http.DefaultClient.Do(req)
		if err != nil {
			opErr = err
		} else {
			body, rerr := io.ReadAll(resp.Body)
			resp.Body.Close()
			switch {
			case rerr != nil:
				opErr = rerr // a broken transfer is a failed export
			case resp.StatusCode != 200:
				opErr = fmt.Errorf("status %d", resp.StatusCode)
			default:
				pos = n.Pos(name) // the endpoint reports no position: the image must be one that was current during the call
				got = ref.ImageFromBytes(p.PageSize, body)
			}
		}
		mu.Lock()
		active = false
		mu.Unlock()
		_ = srv.Close()
	}
	mu.Lock()
	active = false
	mu.Unlock()
	positions[n.Pos(name)] = true
	for _, l := range trace {
		c.Notef("%s", l)
	}
	c.Notef("operation %s -> pos=%s err=%v", p.Op, pos, opErr)
	if ex := n.Exits(); len(ex) > 0 {
		c.Failf("C10/store-exit", "Store.Exit(%v)", ex)
	}
	if effective > 0 {
		c.Label("interleaved")
		c.NonTrivial()
	}
	if opErr != nil {
		c.Label("operation-failed") // an error return is always acceptable
		return
	}
	c.Label("operation-succeeded")
	if p.Op == "http-export" {
		// no reported position: accept the image of any position that was current during the call
		for q := range positions {
			if img, ok := hist.Lookup(name, q); ok && got.Diff(img) == "" && int(img.N()) == int(got.N()) {
				return
			}
		}
		c.Failf("C10/export/torn", "GET /export returned %d pages that are not the image of any position that was current during the call (%d candidates)", got.N(), len(positions))
	}
	if !positions[pos] {
		c.Failf("C10/position-never-current", "%s reports position %s which was not current at any instant during the call", p.Op, pos)
	}
	want, ok := hist.Lookup(name, pos)
	if !ok {
		c.Failf("C10/unknown-position", "%s reports position %s which nobody committed", p.Op, pos)
	}
	if d := got.Diff(want); d != "" {
		sig := "C10/snapshot/torn"
		if p.Op == "export" {
			sig = "C10/export/torn"
		}
		c.Failf(sig, "%s completed successfully reporting position %s but its content is not the image committed there: %s", p.Op, pos, d)
	}
}

var interleaveProp = pbt.Prop[Plan]{ID: "C10", Name: "interleave", Gen: genPlan, Run: runPlan}

func TestProp_interleave(t *testing.T) { interleaveProp.Check(t) }

func TestReplay(t *testing.T) { pbt.Replay(t, interleaveProp, sqlExportProp) }

var _ = io.EOF
