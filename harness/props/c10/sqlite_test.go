package c10

import (
	"bytes"
	"context"
	"database/sql"
	"fmt"
	"os"
	"path/filepath"
	"strings"
	"sync"
	"testing"
	"time"

	"github.com/superfly/litefs/verif/node"
	"github.com/superfly/litefs/verif/pbt"
	"github.com/superfly/litefs/verif/ref"
	"github.com/superfly/litefs/verif/sqlvfs"
	"github.com/superfly/litefs/verif/sqlwork"
	"pgregory.net/rapid"
)

// A real SQLite application runs a generated SQL workload on the primary while
// exports (DB.Export, what GET /export streams) are started at generated file
// operations of generated statements - in the middle of whatever SQLite is doing
// at that moment: between journal records, after a cache spill, between the
// frames of a WAL transaction, inside a checkpoint, during a VACUUM. An export
// waits for the locks it needs while SQLite carries on. Each export that reports
// success must be, byte for byte, the image of the position it reports; that image
// is rebuilt independently from the chain of transaction files, and a plain SQLite
// (unix VFS, no LiteFS) must find the exported file sound.

type ExportAt struct {
	Stmt int `json:"stmt"` // statement index
	Op   int `json:"op"`   // start before the n-th mutating file operation of that statement (0 = before the statement)
}

type SQLExportPlan struct {
	SQL     sqlwork.Plan `json:"sql"`
	Exports []ExportAt   `json:"exports"`
}

func genSQLExportPlan(t *rapid.T) SQLExportPlan {
	p := SQLExportPlan{SQL: sqlwork.Gen(t, []string{"DELETE", "TRUNCATE", "PERSIST", "WAL", "WAL", "WAL"})}
	for i := rapid.IntRange(1, 8).Draw(t, "nexports"); i > 0; i-- {
		p.Exports = append(p.Exports, ExportAt{
			Stmt: rapid.IntRange(0, len(p.SQL.Ops)-1).Draw(t, "stmt"),
			Op:   rapid.SampledFrom([]int{0, 1, 2, 3, 4, 5, 6, 8, 10, 14, 20, 30, 50}).Draw(t, "op"),
		})
	}
	return p
}

type exportResult struct {
	at    ExportAt
	pos   ref.Pos
	data  []byte
	err   error
	began time.Time
}

func runSQLExportPlan(c *pbt.Case, p SQLExportPlan) {
	dir := c.TempDir()
	n, err := node.NewPrimary(dir, node.Options{})
	if err != nil {
		c.Failf("C10/setup", "%v", err)
	}
	c.Cleanup(func() { _ = n.Close() })
	sqlvfs.Use(n.Store, n.M.Root)
	c.Labelf("mode:%s", p.SQL.Mode)
	dbn := sqlwork.Name
	var app *sql.DB
	open := func() {
		var err error
		if app, err = sql.Open("sqlite3", "file:/"+dbn+"?vfs=litefs&_busy_timeout=3000"); err != nil {
			c.Failf("C10/setup", "%v", err)
		}
		app.SetMaxOpenConns(1)
		for _, q := range []string{
			"PRAGMA temp_store=MEMORY",
			fmt.Sprintf("PRAGMA cache_size=%d", p.SQL.CacheSize),
			"PRAGMA synchronous=" + p.SQL.Sync,
			fmt.Sprintf("PRAGMA wal_autocheckpoint=%d", p.SQL.AutoCkpt),
		} {
			_, _ = app.Exec(q)
		}
	}
	open()
	c.Cleanup(func() { _ = app.Close() })
	for _, q := range []string{
		fmt.Sprintf("PRAGMA page_size=%d", p.SQL.PageSize),
		fmt.Sprintf("PRAGMA auto_vacuum=%d", p.SQL.AutoVac),
		"PRAGMA journal_mode=" + p.SQL.Mode,
		"CREATE TABLE t(id INTEGER PRIMARY KEY, k INT, v BLOB)",
		"INSERT INTO t(k,v) VALUES (1, randomblob(100))",
	} {
		if _, err := app.Exec(q); err != nil {
			c.Failf("C10/sqlite-error", "setup %q: %v", q, err)
		}
	}

	var mu sync.Mutex
	var wg sync.WaitGroup
	var results []*exportResult
	start := func(at ExportAt) {
		db := n.Store.DB(dbn)
		if db == nil {
			return
		}
		r := &exportResult{at: at, began: time.Now()}
		mu.Lock()
		results = append(results, r)
		mu.Unlock()
		wg.Add(1)
		go func() {
			defer wg.Done()
			ctx, cancel := context.WithTimeout(context.Background(), 10*time.Second)
			defer cancel()
			var buf bytes.Buffer
			pos, err := db.Export(ctx, &buf)
			mu.Lock()
			r.pos, r.data, r.err = ref.PosOf(pos), buf.Bytes(), err
			mu.Unlock()
		}()
	}
	// the hook runs inside SQLite's file operations of the current statement
	cur, opN := -1, 0
	sqlvfs.OnOp = func(op string) {
		if cur < 0 {
			return
		}
		opN++
		for _, e := range p.Exports {
			if e.Stmt == cur && e.Op == opN {
				c.Labelf("export-started-inside:%s", strings.SplitN(op, " ", 2)[0])
				start(e)
			}
		}
	}
	c.Cleanup(func() { sqlvfs.OnOp = nil })

	inTx := false
	for i, op := range p.SQL.Ops {
		cur, opN = i, 0
		for _, e := range p.Exports {
			if e.Stmt == i && e.Op == 0 {
				start(e)
			}
		}
		if op.Kind == "reopen" {
			_ = app.Close()
			open()
			continue
		}
		if op.Kind == "checkpoint" && (p.SQL.Mode != "WAL" || inTx) {
			continue
		}
		q := op.SQL()
		c.Notef("step %d %s", i, q)
		if _, err := app.Exec(q); err != nil {
			msg := err.Error()
			// (an export holds read locks while it copies: a statement that needs the
			// database to itself is told it is busy, like next to any other reader)
			if strings.Contains(msg, "within a transaction") || strings.Contains(msg, "no transaction is active") || strings.Contains(msg, "locked") || strings.Contains(msg, "busy") {
				if strings.Contains(msg, "locked") || strings.Contains(msg, "busy") {
					c.Label("statement-busy-next-to-export")
					if inTx && (op.Kind == "commit") {
						_, _ = app.Exec("ROLLBACK")
						inTx = false
					}
				}
				continue
			}
			c.Failf("C10/sqlite-error", "step %d %q: %v", i, q, err)
		}
		switch op.Kind {
		case "begin":
			inTx = true
		case "commit", "rollback":
			inTx = false
		}
		if ex := n.Exits(); len(ex) > 0 {
			c.Failf("C10/store-exit", "step %d (%s): Store.Exit(%v)", i, q, ex)
		}
	}
	cur = -1
	if inTx {
		_, _ = app.Exec("COMMIT")
	}
	wg.Wait()
	_ = app.Close()

	// ---- every position's image, from the transaction files alone ----
	images := map[ref.Pos]*ref.Image{}
	var img *ref.Image
	last := n.Pos(dbn)
	for tx := uint64(1); tx <= last.TXID; tx++ {
		f, err := ref.DecodeLTXFile(filepath.Join(n.LTXDir(dbn), fmt.Sprintf("%016x-%016x.ltx", tx, tx)))
		if err != nil {
			c.Failf("C10/harness", "transaction file %d: %v", tx, err)
		}
		img = img.Apply(f)
		images[ref.Pos{TXID: tx, Checksum: uint64(f.Trailer.PostApplyChecksum)}] = img
	}
	if final, err := ref.LogicalImage(n.DBDir(dbn)); err == nil && final != nil && img != nil {
		if hp := ref.HeaderPageN(final.Page(1)); hp > 0 && hp < final.N() {
			final.Resize(hp)
		}
		if d := final.Diff(img); d != "" {
			c.Failf("C10/harness", "the chain of transaction files does not end in the database SQLite left: %s", d)
		}
	}

	ok, inside := 0, 0
	for k, r := range results {
		where := fmt.Sprintf("export %d (started before file operation %d of statement %d %q)", k, r.at.Op, r.at.Stmt, p.SQL.Ops[r.at.Stmt].SQL())
		if r.err != nil {
			c.Label("export-refused-or-timed-out")
			continue // an export may fail (lock wait over): it must not succeed with something else
		}
		want, known := images[r.pos]
		if !known {
			c.Failf("C10/export/unknown-position", "%s reports position %s, which no transaction file describes", where, r.pos)
		}
		got := ref.ImageFromBytes(want.PageSize, r.data)
		if len(r.data)%int(want.PageSize) != 0 || got.N() != want.N() {
			c.Failf("C10/export/torn", "%s at %s returned %d bytes; the image at that position has %d pages of %d bytes", where, r.pos, len(r.data), want.N(), want.PageSize)
		}
		if d := got.Diff(want); d != "" {
			c.Failf("C10/export/torn", "%s at %s is not the image of that position: %s", where, r.pos, d)
		}
		// a plain SQLite agrees that this is a database
		path := filepath.Join(dir, fmt.Sprintf("export-%d.db", k))
		if err := os.WriteFile(path, r.data, 0o644); err != nil {
			c.Failf("C10/harness", "%v", err)
		}
		if res, err := plainIntegrity(path); err != nil {
			c.Failf("C10/export/unreadable", "%s at %s: a plain SQLite cannot read the exported file: %v", where, r.pos, err)
		} else if res != "ok" {
			c.Failf("C10/export/unsound", "%s at %s: integrity_check of the exported file says %q", where, r.pos, res)
		}
		_ = os.Remove(path)
		ok++
		if r.at.Op > 0 {
			inside++
		}
	}
	c.Observe("exports-compared", int64(ok))
	if inside > 0 {
		c.NonTrivial()
	}
}

func plainIntegrity(path string) (string, error) {
	db, err := sql.Open("sqlite3", "file:"+path+"?mode=ro&immutable=1")
	if err != nil {
		return "", err
	}
	defer db.Close()
	var res string
	if err := db.QueryRow("PRAGMA integrity_check").Scan(&res); err != nil {
		return "", err
	}
	var n int
	if err := db.QueryRow("SELECT count(*) FROM t").Scan(&n); err != nil {
		return "", err
	}
	return res, nil
}

var sqlExportProp = pbt.Prop[SQLExportPlan]{ID: "C10", Name: "sqlite-export", Gen: genSQLExportPlan, Run: runSQLExportPlan}

func TestProp_sqlite_export(t *testing.T) { sqlExportProp.Check(t) }
