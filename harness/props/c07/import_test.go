package c07

import (
	"bytes"
	"fmt"
	"net/http"
	"testing"
	"time"

	"github.com/superfly/litefs/verif/cluster"
	"github.com/superfly/litefs/verif/gen"
	"github.com/superfly/litefs/verif/mount"
	"github.com/superfly/litefs/verif/pager"
	"github.com/superfly/litefs/verif/pbt"
	"github.com/superfly/litefs/verif/ref"
	"pgregory.net/rapid"
)

// An import (or another internal writer) that is still waiting for the
// database's locks when the node loses its write authority must not go ahead.

type ImportWaitPlan struct {
	PageSize uint32        `json:"page_size"`
	Mode     string        `json:"mode"`
	Setup    []pager.WalTx `json:"setup"`
	Expiry   bool          `json:"expiry"`
	HoldMs   int           `json:"hold_ms"` // how long the application keeps its lock after the demotion
	N        uint32        `json:"n"`       // pages of the imported image
	WAL      bool          `json:"wal"`
}

func genImportWaitPlan(t *rapid.T) ImportWaitPlan {
	p := ImportWaitPlan{
		PageSize: rapid.SampledFrom([]uint32{512, 4096}).Draw(t, "page_size"),
		Mode:     rapid.SampledFrom([]string{pager.Delete, pager.WAL}).Draw(t, "mode"),
		Expiry:   rapid.Bool().Draw(t, "expiry"),
		HoldMs:   rapid.IntRange(0, 30).Draw(t, "hold_ms"),
		N:        uint32(rapid.SampledFrom([]int{1, 3, 40}).Draw(t, "n")),
		WAL:      rapid.Bool().Draw(t, "wal"),
	}
	for _, tx := range gen.Txs(t, 2, 30) {
		w := pager.WalTx{Tx: tx}
		w.Rollback, w.NoWrite = false, false
		p.Setup = append(p.Setup, w)
	}
	return p
}

func runImportWaitPlan(c *pbt.Case, p ImportWaitPlan) {
	cl := cluster.New(c.TempDir(), 20*time.Millisecond)
	c.Cleanup(cl.Close)
	cl.DBs[dbName] = &cluster.DBConfig{Name: dbName, PageSize: p.PageSize, JournalMode: p.Mode, Sync: pager.SyncOff, Sector: 512}
	n0, err := cl.AddNode("n0", cluster.NodeOpts{Candidate: true})
	if err != nil {
		c.Failf("C07/setup", "%v", err)
	}
	if err := cl.WaitPrimary(n0, 10*time.Second); err != nil {
		c.Failf("C07/setup", "%v", err)
	}
	for i, tx := range p.Setup {
		if wr, err := n0.Write(dbName, tx); err != nil || wr.Err != nil {
			c.Failf("C07/setup", "setup transaction %d: %v %v", i, err, wr.Err)
		}
	}
	n0.CloseConns()
	c.Labelf("mode:%s", p.Mode)

	var holdSHM *mount.File
	// an application connection takes the locks of a write transaction and sits on them
	f, err := n0.M.Open(9001, dbName)
	if err != nil {
		c.Failf("C07/harness", "%v", err)
	}
	const pending, reserved, sharedFirst, sharedSize = 0x40000000, 0x40000001, 0x40000002, 510
	if err := f.SetLk(mount.RdLck, pending, pending); err != nil {
		c.Failf("C07/harness", "lock: %v", err)
	}
	if err := f.SetLk(mount.RdLck, sharedFirst, sharedFirst+sharedSize-1); err != nil {
		c.Failf("C07/harness", "lock: %v", err)
	}
	_ = f.SetLk(mount.UnLck, pending, pending)
	if err := f.SetLk(mount.WrLck, reserved, reserved); err != nil {
		c.Failf("C07/harness", "lock: %v", err)
	}
	if p.Mode == pager.WAL {
		// a WAL-mode writer holds the WRITE lock byte of the shared-memory file
		shm, _, err := n0.M.OpenOrCreate(9001, dbName+"-shm")
		if err != nil {
			c.Failf("C07/harness", "%v", err)
		}
		defer shm.Close()
		if err := shm.SetLk(mount.RdLck, 128, 128); err != nil {
			c.Failf("C07/harness", "dms: %v", err)
		}
		if err := shm.SetLk(mount.WrLck, 120, 120); err != nil {
			c.Failf("C07/harness", "wal write lock: %v", err)
		}
		holdSHM = shm
	}
	before := n0.Pos(dbName)
	beforeFiles, _, _ := ref.ListLTXDir(n0.LTXDir(dbName))
	beforeBytes := rawFiles(n0)

	// POST /import arrives: it has to wait for the application
	mode := ref.ModeRollback
	if p.WAL {
		mode = ref.ModeWAL
	}
	img := gen.ImportImage(p.PageSize, mode, p.N, 4242)
	type result struct {
		status int
		err    error
	}
	done := make(chan result, 1)
	go func() {
		req, _ := http.NewRequest("POST", n0.URL+"/import?name="+dbName, bytes.NewReader(img.Bytes()))
		cli := &http.Client{Timeout: 15 * time.Second, Transport: &http.Transport{DialContext: cluster.NoLingerDial}}
		resp, err := cli.Do(req)
		if err != nil {
			done <- result{0, err}
			return
		}
		resp.Body.Close()
		done <- result{resp.StatusCode, nil}
	}()
	time.Sleep(5 * time.Millisecond)

	// the node loses its write authority while the import is still waiting
	cl.Svc.SetAcquireErr("n0", fmt.Errorf("scripted: lease service unavailable"))
	if p.Expiry {
		cl.Svc.Expire()
	} else {
		n0.Store.Demote()
	}
	deadline := time.Now().Add(5 * time.Second)
	for n0.Store.IsPrimary() {
		if time.Now().After(deadline) {
			c.Failf("C07/liveness/still-primary", "the node did not notice the loss of its lease within 5 s")
		}
		time.Sleep(200 * time.Microsecond)
	}
	time.Sleep(time.Duration(p.HoldMs) * time.Millisecond)
	// ... and only then does the application let go
	if holdSHM != nil {
		_ = holdSHM.SetLk(mount.UnLck, 120, 120)
		_ = holdSHM.SetLk(mount.UnLck, 128, 128)
	}
	_ = f.Close()

	var res result
	select {
	case res = <-done:
	case <-time.After(20 * time.Second):
		c.Failf("C07/import-hangs", "POST /import did not return within 20 s of the application releasing its locks")
	}
	time.Sleep(2 * time.Millisecond)
	what := fmt.Sprintf("POST /import that was waiting for the write lock when the node lost its lease (status %d, err %v)", res.status, res.err)
	if ex := n0.Exited(); len(ex) > 0 {
		c.Failf("C07/import-after-loss/exit", "%s: Store.Exit(%v)", what, ex)
	}
	if res.err == nil && res.status >= 200 && res.status < 300 {
		c.Failf("C07/import-after-loss/acknowledged", "%s: answered success", what)
	}
	after := n0.Pos(dbName)
	afterFiles, _, _ := ref.ListLTXDir(n0.LTXDir(dbName))
	if after != before {
		c.Failf("C07/import-after-loss/position-moved", "%s: the position went from %s to %s on a node without write authority", what, before, after)
	}
	if fmt.Sprint(afterFiles) != fmt.Sprint(beforeFiles) {
		c.Failf("C07/import-after-loss/log-changed", "%s: transaction files %v -> %v", what, beforeFiles, afterFiles)
	}
	if got := rawFiles(n0); got != beforeBytes {
		c.Failf("C07/import-after-loss/database-changed", "%s: %s -> %s", what, beforeBytes, got)
	}
	c.NonTrivial()
}

func rawFiles(n *cluster.CNode) string {
	img, err := ref.LogicalImage(n.DBDir(dbName))
	if err != nil || img == nil {
		return "unreadable"
	}
	return fmt.Sprintf("%d pages/%016x", img.N(), img.Checksum())
}

var importWaitProp = pbt.Prop[ImportWaitPlan]{ID: "C07", Name: "import-wait", Gen: genImportWaitPlan, Run: runImportWaitPlan}

func TestProp_import_wait(t *testing.T) { importWaitProp.Check(t) }
