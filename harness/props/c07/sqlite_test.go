package c07

import (
	"bytes"
	"database/sql"
	"fmt"
	"os"
	"path/filepath"
	"sort"
	"strings"
	"testing"
	"time"

	"github.com/superfly/litefs/verif/cluster"
	"github.com/superfly/litefs/verif/pager"
	"github.com/superfly/litefs/verif/pbt"
	"github.com/superfly/litefs/verif/sqlvfs"
	"github.com/superfly/litefs/verif/sqlwork"
	"pgregory.net/rapid"
)

// A real SQLite application that tries to write on a replica: every statement
// that would change the database must fail, and nothing on the replica may
// change - whatever file operations SQLite chooses to try on the way.

type SQLReplicaPlan struct {
	SQL      sqlwork.Plan `json:"sql"`      // what the primary's application does
	Attempts []sqlwork.Op `json:"attempts"` // what the replica's application tries, one after every primary statement
}

func genSQLReplicaPlan(t *rapid.T) SQLReplicaPlan {
	p := SQLReplicaPlan{SQL: sqlwork.Gen(t, []string{"DELETE", "TRUNCATE", "PERSIST", "WAL", "WAL"})}
	if len(p.SQL.Ops) > 14 {
		p.SQL.Ops = p.SQL.Ops[:14]
	}
	for range p.SQL.Ops {
		op := sqlwork.Op{A: rapid.IntRange(1, 60).Draw(t, "a"), B: rapid.IntRange(1, 4).Draw(t, "b"), Size: rapid.SampledFrom([]int{0, 10, 3000, 20000}).Draw(t, "size")}
		op.Kind = rapid.SampledFrom([]string{"insert", "insert", "update", "delete", "vacuum", "index", "drop-index", "checkpoint", "pragma", "create", "journal-mode", "begin-immediate"}).Draw(t, "attempt")
		op.Arg = rapid.SampledFrom([]string{"TRUNCATE", "RESTART", "user_version=9", "incremental_vacuum(3)", "DELETE", "WAL"}).Draw(t, "arg")
		p.Attempts = append(p.Attempts, op)
	}
	return p
}

func replicaFiles(r *cluster.CNode, name string) string {
	var sb strings.Builder
	fmt.Fprintf(&sb, "pos=%s ", r.Pos(name))
	for _, f := range []string{"database", "journal", "wal"} {
		b, err := os.ReadFile(filepath.Join(r.DBDir(name), f))
		if err != nil {
			fmt.Fprintf(&sb, "%s=absent ", f)
			continue
		}
		var sum uint64
		for i, x := range b {
			sum = sum*1099511628211 + uint64(x) + uint64(i)
		}
		fmt.Fprintf(&sb, "%s=%d/%016x ", f, len(b), sum)
	}
	ents, _ := os.ReadDir(r.LTXDir(name))
	var names []string
	for _, e := range ents {
		names = append(names, e.Name())
	}
	sort.Strings(names)
	fmt.Fprintf(&sb, "ltx=%v", names)
	return sb.String()
}

func runSQLReplicaPlan(c *pbt.Case, p SQLReplicaPlan) {
	name := sqlwork.Name
	cl := cluster.New(c.TempDir(), 50*time.Millisecond)
	c.Cleanup(cl.Close)
	cl.DBs[name] = &cluster.DBConfig{Name: name, PageSize: uint32(p.SQL.PageSize), JournalMode: pager.Delete, Sync: pager.SyncOff, Sector: 512}
	pr, err := cl.AddNode("p", cluster.NodeOpts{Candidate: true})
	if err != nil {
		c.Failf("C07/setup", "%v", err)
	}
	if err := cl.WaitPrimary(pr, 10*time.Second); err != nil {
		c.Failf("C07/setup", "%v", err)
	}
	rp, err := cl.AddNode("r", cluster.NodeOpts{})
	if err != nil {
		c.Failf("C07/setup", "%v", err)
	}
	sqlvfs.Mount("p", pr.Store, pr.M.Root)
	sqlvfs.Mount("r", rp.Store, rp.M.Root)
	app, err := sql.Open("sqlite3", "file:/p/"+name+"?vfs=litefs&_busy_timeout=2000")
	if err != nil {
		c.Failf("C07/setup", "%v", err)
	}
	app.SetMaxOpenConns(1)
	c.Cleanup(func() { _ = app.Close() })
	c.Labelf("mode:%s", p.SQL.Mode)
	for _, q := range []string{
		"PRAGMA temp_store=MEMORY",
		fmt.Sprintf("PRAGMA cache_size=%d", p.SQL.CacheSize),
		fmt.Sprintf("PRAGMA page_size=%d", p.SQL.PageSize),
		fmt.Sprintf("PRAGMA auto_vacuum=%d", p.SQL.AutoVac),
		"PRAGMA journal_mode=" + p.SQL.Mode,
		"CREATE TABLE t(id INTEGER PRIMARY KEY, k INT, v BLOB)",
		"INSERT INTO t(k,v) VALUES (1, randomblob(2000)),(2, randomblob(20)),(3, randomblob(9000))",
	} {
		if _, err := app.Exec(q); err != nil {
			c.Failf("C07/sqlite-error", "setup %q: %v", q, err)
		}
	}
	refused, inTx := 0, false
	for i, op := range p.SQL.Ops {
		if op.Kind != "reopen" && !(op.Kind == "checkpoint" && (p.SQL.Mode != "WAL" || inTx)) {
			if _, err := app.Exec(op.SQL()); err != nil {
				msg := err.Error()
				if !(strings.Contains(msg, "within a transaction") || strings.Contains(msg, "no transaction is active") || strings.Contains(msg, "locked")) {
					c.Failf("C07/sqlite-error", "primary step %d %q: %v", i, op.SQL(), err)
				}
			}
			switch op.Kind {
			case "begin":
				inTx = true
			case "commit", "rollback":
				inTx = false
			}
		}
		if inTx {
			continue
		}
		if err := cl.WaitConverged(20 * time.Second); err != nil {
			c.Failf("C07/liveness/no-convergence", "step %d: %v", i, err)
		}
		if rp.Store.DB(name) == nil {
			continue
		}
		// ---- the replica's application tries to write ----
		at := p.Attempts[i%len(p.Attempts)]
		q := at.SQL()
		switch at.Kind {
		case "create":
			q = fmt.Sprintf("CREATE TABLE x%d(a)", i)
		case "journal-mode":
			q = "PRAGMA journal_mode=" + map[bool]string{true: "DELETE", false: "WAL"}[p.SQL.Mode == "WAL"]
		case "begin-immediate":
			q = "BEGIN IMMEDIATE; INSERT INTO t(k,v) VALUES (77, randomblob(500)); COMMIT"
		case "checkpoint":
			q = "PRAGMA wal_checkpoint(" + map[bool]string{true: at.Arg, false: "TRUNCATE"}[at.Arg == "TRUNCATE" || at.Arg == "RESTART"] + ")"
		case "pragma":
			q = "PRAGMA user_version=9"
		}
		before := replicaFiles(rp, name)
		rdb, err := sql.Open("sqlite3", "file:/r/"+name+"?vfs=litefs&_busy_timeout=100")
		if err != nil {
			c.Failf("C07/harness", "%v", err)
		}
		rdb.SetMaxOpenConns(1)
		_, _ = rdb.Exec("PRAGMA temp_store=MEMORY")
		_, werr := rdb.Exec(q)
		_ = rdb.Close()
		after := replicaFiles(rp, name)
		what := fmt.Sprintf("step %d: the replica's application ran %q (error: %v)", i, q, werr)
		c.Notef("%s", what)
		c.Labelf("attempt:%s", at.Kind)
		if ex := rp.Exited(); len(ex) > 0 {
			c.Failf("C07/sqlite/replica-exit", "%s: the replica called Store.Exit(%v)", what, ex)
		}
		if after != before {
			c.Failf("C07/sqlite/replica-state-changed", "%s:\n  before: %s\n  after:  %s", what, before, after)
		}
		changes := at.Kind != "checkpoint" && at.Kind != "journal-mode"
		if werr == nil && changes {
			// the statement "succeeded": then it must not have had anything to write
			// (e.g. a DELETE that matches no row); the file comparison above is the judge
			c.Label("replica-statement-succeeded-without-writing")
		} else if werr != nil {
			refused++
			msg := werr.Error()
			switch {
			case strings.Contains(msg, "readonly"), strings.Contains(msg, "read-only"):
				c.Label("refused:readonly")
			case strings.Contains(msg, "disk I/O error"):
				c.Label("refused:ioerr")
			case strings.Contains(msg, "locked"), strings.Contains(msg, "busy"), strings.Contains(msg, "protocol"):
				c.Label("refused:busy")
			case strings.Contains(msg, "unable to open database file"): // the journal could not be created
				c.Label("refused:cantopen")
			default:
				c.Labelf("refused:other:%.40s", msg)
			}
		}
		if !bytes.Contains([]byte(after), []byte("pos="+rp.Pos(name).String())) {
			c.Failf("C07/sqlite/replica-state-changed", "%s: the position moved while judging", what)
		}
	}
	c.Observe("refused", int64(refused))
	if refused >= 2 {
		c.NonTrivial()
	}
}

var sqlReplicaProp = pbt.Prop[SQLReplicaPlan]{ID: "C07", Name: "sqlite-replica", Gen: genSQLReplicaPlan, Run: runSQLReplicaPlan}

func TestProp_sqlite_replica(t *testing.T) { sqlReplicaProp.Check(t) }
