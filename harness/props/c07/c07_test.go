// Package c07 decides property C07: a node without write authority cannot
// change a replicated database.
package c07

import (
	"bytes"
	"context"
	"fmt"
	"io"
	"net/http"
	"os"
	"path/filepath"
	"sort"
	"syscall"
	"testing"
	"time"

	"github.com/superfly/litefs"
	"github.com/superfly/litefs/verif/cluster"
	"github.com/superfly/litefs/verif/crash"
	"github.com/superfly/litefs/verif/gen"
	"github.com/superfly/litefs/verif/mount"
	"github.com/superfly/litefs/verif/pager"
	"github.com/superfly/litefs/verif/pbt"
	"github.com/superfly/litefs/verif/ref"
	"pgregory.net/rapid"
)

const dbName = "db.sqlite"

// Operation kinds an application can issue on a replica's mount.
const (
	ODBWrite       = "db-write"        // write one page of the database file
	ODBTruncate    = "db-truncate"     // ftruncate the database file
	ODBUnlink      = "db-unlink"       // unlink the database
	OJournalCreate = "journal-create"  // open(O_CREAT) the journal
	OJournalWrite  = "journal-write"   // write a journal header / record
	OJournalZero   = "journal-zero"    // the 28 zero bytes of a PERSIST commit
	OJournalTrunc  = "journal-truncate" // ftruncate(journal, 0): a TRUNCATE commit
	OJournalUnlink = "journal-unlink"  // unlink(journal): a DELETE commit
	OWALCreate     = "wal-create"
	OWALHeader     = "wal-header"
	OWALFrame      = "wal-frame"
	OWALTruncate   = "wal-truncate"
	OWALUnlink     = "wal-unlink"
	OSHMWrite      = "shm-write"
	OSHMTruncate   = "shm-truncate"
	OSHMUnlink     = "shm-unlink"
	OLock          = "lock"    // take SQLite's locks up to a level (rollback) or a WAL lock byte
	OUnlock        = "unlock"  // release everything
	OImport        = "import"  // POST /import on the replica's HTTP API
	OCloseAll      = "close"   // close every handle of the connection
)

var allOps = []string{ODBWrite, ODBWrite, ODBTruncate, ODBUnlink, OJournalCreate, OJournalWrite, OJournalZero, OJournalTrunc, OJournalUnlink,
	OWALCreate, OWALHeader, OWALFrame, OWALFrame, OWALTruncate, OWALUnlink, OSHMWrite, OSHMTruncate, OSHMUnlink, OLock, OLock, OUnlock, OImport, OCloseAll}

type Op struct {
	Kind string `json:"k"`
	A    int    `json:"a,omitempty"` // page number / lock level / size, depending on the kind
	B    int    `json:"b,omitempty"`
}

type ReplicaPlan struct {
	PageSize uint32        `json:"page_size"`
	Mode     string        `json:"mode"`
	Setup    []pager.WalTx `json:"setup"`
	Role     int           `json:"role"` // 0 connected replica, 1 replica whose primary went away, 2 demoted former primary, 3 replica whose halt-lock acquisition failed, 4 replica that held the halt lock and released it
	Ops      []Op          `json:"ops"`
	HaltFail string        `json:"halt_fail,omitempty"` // role 3: "timeout" (the node's own acquisition time-out) or "cancel" (the application gives up waiting)
	Forward  bool          `json:"forward,omitempty"`   // role 4: a transaction is forwarded while the lock is held
	RelFault string        `json:"rel_fault,omitempty"` // role 4: "" | "resp-lost" (the primary releases, its answer is lost) | "stream-down" (the node is cut off from the primary when the application lets go)
	Promote  bool          `json:"promote,omitempty"`   // roles 3, 4: afterwards the node becomes primary and must be able to commit
}

func genReplicaPlan(t *rapid.T) ReplicaPlan {
	p := ReplicaPlan{
		PageSize: rapid.SampledFrom([]uint32{512, 1024, 4096}).Draw(t, "page_size"),
		Mode:     rapid.SampledFrom([]string{pager.Delete, pager.Truncate, pager.Persist, pager.WAL, pager.WAL}).Draw(t, "mode"),
		Role:     rapid.SampledFrom([]int{0, 0, 1, 2, 2, 3, 3, 4}).Draw(t, "role"),
	}
	if p.Role == 3 {
		p.HaltFail = rapid.SampledFrom([]string{"timeout", "cancel"}).Draw(t, "halt_fail")
	}
	if p.Role == 4 {
		p.Forward = rapid.Bool().Draw(t, "forward")
		p.RelFault = rapid.SampledFrom([]string{"", "resp-lost", "stream-down"}).Draw(t, "rel_fault")
	}
	if p.Role >= 3 {
		p.Promote = rapid.Bool().Draw(t, "promote")
	}
	ns := rapid.IntRange(1, 3).Draw(t, "nsetup")
	for i, tx := range gen.Txs(t, ns, 40) {
		wt := pager.WalTx{Tx: tx}
		wt.Rollback, wt.NoWrite = false, false
		_ = i
		p.Setup = append(p.Setup, wt)
	}
	n := rapid.IntRange(1, 25).Draw(t, "nops")
	for i := 0; i < n; i++ {
		p.Ops = append(p.Ops, Op{Kind: rapid.SampledFrom(allOps).Draw(t, "op"), A: rapid.IntRange(0, 45).Draw(t, "a"), B: rapid.IntRange(0, 4).Draw(t, "b")})
	}
	return p
}

// state is everything the property says must not change.
type state struct {
	Pos   ref.Pos
	DB    []byte
	WAL   []byte
	LTX   []string
	Image *ref.Image
}

func capture(n *cluster.CNode) (state, error) {
	var s state
	s.Pos = n.Pos(dbName)
	dir := n.DBDir(dbName)
	s.DB, _ = os.ReadFile(filepath.Join(dir, "database"))
	s.WAL, _ = os.ReadFile(filepath.Join(dir, "wal"))
	ents, _ := os.ReadDir(filepath.Join(dir, "ltx"))
	for _, e := range ents {
		fi, err := e.Info()
		if err != nil {
			continue
		}
		s.LTX = append(s.LTX, fmt.Sprintf("%s:%d", e.Name(), fi.Size()))
	}
	sort.Strings(s.LTX)
	var err error
	s.Image, err = ref.LogicalImage(dir)
	return s, err
}

func (s state) diff(o state) string {
	if s.Pos != o.Pos {
		return fmt.Sprintf("position %s -> %s", s.Pos, o.Pos)
	}
	if fmt.Sprint(s.LTX) != fmt.Sprint(o.LTX) {
		return fmt.Sprintf("transaction log %v -> %v", s.LTX, o.LTX)
	}
	if s.Image != nil && o.Image != nil {
		if d := s.Image.Diff(o.Image); d != "" {
			return "database image: " + d
		}
	}
	if !bytes.Equal(s.DB, o.DB) {
		return fmt.Sprintf("database file bytes changed (%d -> %d bytes)", len(s.DB), len(o.DB))
	}
	return ""
}

func runReplicaPlan(c *pbt.Case, p ReplicaPlan) {
	base := c.TempDir()
	cl := cluster.New(base, 30*time.Millisecond)
	c.Cleanup(cl.Close)
	cl.DBs[dbName] = &cluster.DBConfig{Name: dbName, PageSize: p.PageSize, JournalMode: p.Mode, Sync: pager.SyncNormal, Sector: 512}
	// (a halt lock whose release never reaches the primary is dropped there after its time to live)
	n0, err := cl.AddNode("n0", cluster.NodeOpts{Candidate: true, Configure: func(s *litefs.Store) {
		if p.Role == 3 {
			s.HaltLockTTL, s.HaltLockMonitorInterval = 150*time.Millisecond, 10*time.Millisecond
		}
	}})
	if err != nil {
		c.Failf("C07/setup", "%v", err)
	}
	if err := cl.WaitPrimary(n0, 10*time.Second); err != nil {
		c.Failf("C07/setup", "%v", err)
	}
	// a replica that may take the lease itself would legitimately gain write authority
	// (it cannot while n0 holds the lease, which only the script takes away)
	n1, err := cl.AddNode("n1", cluster.NodeOpts{Candidate: p.Role >= 2, Configure: func(s *litefs.Store) {
		if p.Role == 3 && p.HaltFail == "timeout" {
			s.HaltAcquireTimeout = 40 * time.Millisecond
		}
	}})
	if err != nil {
		c.Failf("C07/setup", "%v", err)
	}
	for i, tx := range p.Setup {
		if wr, err := n0.Write(dbName, tx); err != nil || wr.Err != nil {
			c.Failf("C07/setup", "setup transaction %d: %v %v", i, err, wr.Err)
		}
	}
	if err := cl.WaitConverged(20 * time.Second); err != nil {
		c.Failf("C07/setup", "%v", err)
	}
	// choose the node without write authority
	target := n1
	switch p.Role {
	case 1: // the primary goes away: the replica knows no primary
		n0.Stop()
		c.Label("role:no-primary")
	case 2: // the former primary, demoted (n1 takes over)
		if err := cl.MakePrimary(n1, false, 20*time.Second); err != nil {
			c.Failf("C07/setup", "%v", err)
		}
		target = n0
		c.Label("role:demoted-primary")
		// wait for the demoted node's role-change recovery and reconnection
		for w := 0; w < 5000 && n1.Store.SubscriberByNodeID(n0.Store.ID()) == nil; w++ {
			time.Sleep(time.Millisecond)
		}
	case 3:
		// The application asks for the halt lock while this node cannot catch up to the
		// position the lock is granted at: the acquisition fails, the node holds nothing.
		n1.FC.Pause()
		if wr, err := n0.Write(dbName, p.Setup[0]); err != nil || wr.Err != nil {
			c.Failf("C07/setup", "transaction before the halt: %v %v", err, wr.Err)
		}
		n0.CloseConns()
		lf, err := n1.M.Open(7001, dbName+"-lock")
		if err != nil {
			c.Failf("C07/harness", "open lock file: %v", err)
		}
		ctx, cancel := context.WithTimeout(context.Background(), 10*time.Second)
		if p.HaltFail == "cancel" {
			cancel()
			ctx, cancel = context.WithTimeout(context.Background(), 40*time.Millisecond)
		}
		lerr := lf.SetLkWait(ctx, mount.WrLck, 72, 72)
		cancel()
		if lerr == nil {
			c.Failf("C07/harness", "the halt lock was granted to a node that cannot have reached the primary's position")
		}
		_ = lf.Close()
		n1.FC.Resume()
		// (No further transaction here: the next one the node receives would make it
		// forget whatever it remembers of the lock. The grant is released by the node, or
		// dropped by the primary after its time to live.)
		if err := cl.WaitConverged(20 * time.Second); err != nil {
			c.Failf("C07/setup", "%v", err)
		}
		c.Labelf("role:halt-acquisition-failed:%s", p.HaltFail)
	case 4:
		lf, err := n1.M.Open(7001, dbName+"-lock")
		if err != nil {
			c.Failf("C07/harness", "open lock file: %v", err)
		}
		ctx, cancel := context.WithTimeout(context.Background(), 10*time.Second)
		lerr := lf.SetLkWait(ctx, mount.WrLck, 72, 72)
		cancel()
		if lerr != nil {
			c.Failf("C07/setup", "the halt lock was not granted: %v", lerr)
		}
		if p.Forward {
			if wr, err := n1.Write(dbName, p.Setup[0]); err != nil || wr.Err != nil {
				c.Failf("C07/setup", "transaction under the halt lock: %v %v", err, wr.Err)
			}
			n1.CloseConns()
			c.Label("forwarded-commit")
		}
		switch p.RelFault {
		case "resp-lost":
			n1.FC.DropReleaseResp = 1
		case "stream-down":
			n1.FC.Isolate()
		}
		// (with a fault the release may report an error; the application has let go either way)
		if err := lf.SetLkWait(context.Background(), mount.UnLck, 72, 72); err != nil && p.RelFault == "" {
			c.Failf("C07/setup", "release of the halt lock: %v", err)
		}
		_ = lf.Close()
		n1.FC.Refuse(false)
		if err := cl.WaitConverged(20 * time.Second); err != nil {
			c.Failf("C07/setup", "%v", err)
		}
		c.Labelf("role:halt-lock-released:%s", p.RelFault)
	default:
		c.Label("role:connected-replica")
	}
	if target.Store.IsPrimary() {
		c.Failf("C07/setup", "target is primary")
	}
	c.Labelf("mode:%s", p.Mode)

	exitImage := filepath.Join(base, "exit-image")
	frozen := false
	target.OnExit = func(int) {
		if !frozen {
			frozen = true
			_ = crash.CopyDir(target.Dir, exitImage)
		}
	}
	m := target.M
	owner := uint64(4242)
	files := map[string]*mount.File{}
	var everOpened []*mount.File // (an unlinked file's handle leaves the map and stays open, as it would in a process)
	open := func(name string, create bool) *mount.File {
		if f := files[name]; f != nil {
			return f
		}
		f, err := m.Open(owner, name)
		if err != nil && create {
			f, err = m.Create(owner, name)
		}
		if err != nil {
			return nil
		}
		files[name] = f
		everOpened = append(everOpened, f)
		return f
	}
	defer func() {
		for _, f := range files {
			_ = f.Close()
		}
	}()

	refused := 0
	ps := int(p.PageSize)
	for i, op := range p.Ops {
		if target.Store.IsPrimary() {
			c.Failf("C07/harness", "the target node became primary")
		}
		before, err := capture(target)
		if err != nil {
			c.Failf("C07/harness", "capture: %v", err)
		}
		var opErr error
		mustEACCES := false // the property names the error class for writes and journal creation
		attempted := true
		switch op.Kind {
		case ODBWrite:
			if f := open(dbName, false); f != nil {
				pg := 1 + op.A%int(before.Image.N()+2)
				opErr = f.WriteAt(ref.MakePage(p.PageSize, uint32(pg), 999, 9), int64(pg-1)*int64(ps))
				mustEACCES = true
			} else {
				attempted = false
			}
		case ODBTruncate:
			if f := open(dbName, false); f != nil {
				n := int64(op.A % int(before.Image.N()+3))
				if n == int64(before.Image.N()) {
					attempted = false // truncating to the current size changes nothing
					break
				}
				opErr = f.Truncate(n * int64(ps))
			} else {
				attempted = false
			}
		case ODBUnlink:
			delete(files, dbName)
			opErr = m.Remove(dbName)
		case OJournalCreate:
			if m.Exists(dbName + "-journal") {
				attempted = false
				break
			}
			f, e := m.Create(owner, dbName+"-journal")
			opErr = e
			mustEACCES = true
			if f != nil {
				files[dbName+"-journal"] = f
				everOpened = append(everOpened, f)
			}
		case OJournalWrite, OJournalZero:
			f := open(dbName+"-journal", false)
			if f == nil {
				attempted = false
				break
			}
			data := make([]byte, 512)
			if op.Kind == OJournalZero {
				data = make([]byte, 28)
			} else {
				copy(data, []byte{0xd9, 0xd5, 0x05, 0xf9, 0x20, 0xa1, 0x63, 0xd7, 0, 0, 0, 1})
				data[22], data[23] = byte(512>>8), 0
				data[26] = byte(p.PageSize >> 8)
			}
			opErr = f.WriteAt(data, int64(op.B)*512)
			mustEACCES = true
		case OJournalTrunc:
			if f := open(dbName+"-journal", false); f != nil {
				opErr = f.Truncate(0)
			} else {
				attempted = false
			}
		case OJournalUnlink:
			if !m.Exists(dbName + "-journal") {
				attempted = false
				break
			}
			delete(files, dbName+"-journal")
			opErr = m.Remove(dbName + "-journal")
		case OWALCreate:
			open(dbName+"-wal", true)
			attempted = false // creating an empty log changes nothing and is allowed
		case OWALHeader:
			if f := open(dbName+"-wal", true); f != nil {
				opErr = f.WriteAt(ref.WALHeader(op.B%2 == 0, p.PageSize, 0, 77, 78), 0)
				mustEACCES = true
			} else {
				attempted = false
			}
		case OWALFrame:
			if f := open(dbName+"-wal", true); f != nil {
				pg := uint32(1 + op.A%int(before.Image.N()+1))
				data := ref.MakePage(p.PageSize, pg, 998, 8)
				h, _, _ := ref.WALFrameHeader(false, pg, uint32(before.Image.N()+1), 77, 78, 1, 2, data)
				off := int64(32 + op.B*(24+ps))
				if op.A%2 == 0 {
					opErr = f.WriteAt(h, off)
				} else {
					opErr = f.WriteAt(data, off+24)
				}
				mustEACCES = true
			} else {
				attempted = false
			}
		case OWALTruncate:
			if f := open(dbName+"-wal", false); f != nil {
				opErr = f.Truncate(0)
			}
			attempted = false // an empty log stays empty: allowed either way
		case OWALUnlink:
			delete(files, dbName+"-wal")
			_ = m.Remove(dbName + "-wal")
			attempted = false
		case OSHMWrite:
			if f := open(dbName+"-shm", true); f != nil {
				_ = f.WriteAt(bytes.Repeat([]byte{byte(op.A)}, 48), int64(op.B)*48)
			}
			attempted = false // shared memory is not part of the image, the position or the log
		case OSHMTruncate:
			if f := open(dbName+"-shm", true); f != nil {
				_ = f.Truncate(int64(op.A) * 100)
			}
			attempted = false
		case OSHMUnlink:
			delete(files, dbName+"-shm")
			_ = m.Remove(dbName + "-shm")
			attempted = false
		case OLock:
			attempted = false
			if op.B%2 == 0 {
				if f := open(dbName, false); f != nil {
					cn := []struct{ s, e uint64 }{{0x40000000, 0x40000000}, {0x40000002, 0x40000002 + 509}, {0x40000001, 0x40000001}}[op.A%3]
					typ := mount.RdLck
					if op.A%2 == 1 {
						typ = mount.WrLck
					}
					_ = f.SetLk(typ, cn.s, cn.e)
				}
			} else if f := open(dbName+"-shm", true); f != nil {
				b := uint64(120 + op.A%9)
				typ := mount.RdLck
				if op.B > 2 {
					typ = mount.WrLck
				}
				_ = f.SetLk(typ, b, b)
			}
		case OUnlock:
			attempted = false
			for _, f := range files {
				_ = f.SetLk(mount.UnLck, 0, ^uint64(0)>>1)
			}
		case OImport:
			img := gen.ImportImage(p.PageSize, ref.ModeRollback, uint32(1+op.A%5), 55)
			resp, err := http.Post(target.URL+"/import?name="+dbName, "application/octet-stream", bytes.NewReader(img.Bytes()))
			if err != nil {
				opErr = err
			} else {
				_, _ = io.Copy(io.Discard, resp.Body)
				resp.Body.Close()
				if resp.StatusCode != 200 {
					opErr = fmt.Errorf("http status %d", resp.StatusCode)
				}
			}
		case OCloseAll:
			attempted = false
			for k, f := range files {
				_ = f.Close()
				delete(files, k)
			}
		}
		after, err := capture(target)
		if err != nil {
			c.Failf("C07/harness", "capture: %v", err)
		}
		c.Notef("op %d %+v attempted=%v err=%v", i, op, attempted, opErr)
		if d := before.diff(after); d != "" {
			c.Failf("C07/replica-state-changed", "op %d %+v on a node without write authority (err=%v): %s", i, op, opErr, d)
		}
		if attempted {
			if opErr == nil {
				c.Failf("C07/not-refused", "op %d %+v on a node without write authority returned success", i, op)
			}
			refused++
			if mustEACCES && mount.Errno(opErr) != syscall.EACCES {
				c.Failf("C07/wrong-errno", "op %d %+v was refused with errno %d (%v); page, journal and WAL writes and journal creation must surface EACCES", i, op, int(mount.Errno(opErr)), opErr)
			}
			c.Labelf("refused:%s", op.Kind)
		}
		if ex := target.Exits(); len(ex) > 0 {
			// The statement is about the image, the position and the log, not about
			// availability: an exit is process death. Judge the directory as it was
			// at that instant after a restart, then stop (observation, not a violation).
			c.Label("observed:store-exit-on-replica")
			c.Observe("store-exit-on-node-without-authority", 1)
			target.Stop()
			target.DirOverride = exitImage
			if err := target.Start(); err != nil {
				c.Failf("C07/restart-failed", "op %d %+v made the node exit(%v) and the directory it left cannot be reopened: %v", i, op, ex, err)
			}
			restarted, err := capture(target)
			if err != nil {
				c.Failf("C07/harness", "capture: %v", err)
			}
			if d := before.diff(restarted); d != "" {
				c.Failf("C07/replica-state-changed", "op %d %+v made the node exit(%v); after restart: %s", i, op, ex, d)
			}
			files = map[string]*mount.File{}
			break
		}
	}
	if p.Role >= 3 && p.Promote && len(target.Exits()) == 0 {
		// write authority regained the regular way: the node takes the lease
		// (the application ends: every descriptor it ever had is closed)
		for _, f := range everOpened {
			_ = f.Close()
		}
		files = map[string]*mount.File{}
		if err := cl.MakePrimary(target, false, 20*time.Second); err != nil {
			calls := cl.Svc.Calls()
			if len(calls) > 8 {
				calls = calls[len(calls)-8:]
			}
			c.Failf("C07/liveness/no-primary", "%v (last lease calls: %+v)", err, calls)
		}
		if wr, err := target.Write(dbName, p.Setup[0]); err != nil || wr.Err != nil {
			c.Failf("C07/primary-cannot-commit", "the node took the lease after its halt lock was gone and a valid transaction is refused: %v %v", err, wr.Err)
		}
		target.CloseConns()
		c.Label("promoted-afterwards")
	}
	// the node still holds exactly the committed image
	res, err := target.Read(dbName)
	if err == nil && res.Pos.TXID > 0 {
		if img, ok := cl.Hist.Lookup(dbName, res.Pos); ok {
			if d := res.Image.Diff(img); d != "" {
				c.Failf("C07/replica-image", "after the sequence the image through the mount differs from the committed image at %s: %s", res.Pos, d)
			}
		}
	}
	if a := cl.LeaseAnomalies(); len(a) > 0 {
		c.Failf("C07/primary-after-giving-lease-back", "%s", a[0])
	}
	if refused > 0 {
		c.NonTrivial()
	}
}

var replicaProp = pbt.Prop[ReplicaPlan]{ID: "C07", Name: "replica-ops", Gen: genReplicaPlan, Run: runReplicaPlan}

func TestProp_replica_ops(t *testing.T) { replicaProp.Check(t) }

// ---- a primary loses its lease relative to an in-flight transaction -----------------------------------

type DemotePlan struct {
	PageSize uint32        `json:"page_size"`
	Mode     string        `json:"mode"`
	Sync     string        `json:"sync"`
	Setup    []pager.WalTx `json:"setup"`
	Tx       pager.WalTx   `json:"tx"`
	At       int           `json:"at"`     // the lease is lost before the At-th file operation of the transaction
	Expiry   bool          `json:"expiry"` // lease expiry (else manual demotion)
}

func genDemotePlan(t *rapid.T) DemotePlan {
	p := DemotePlan{
		PageSize: rapid.SampledFrom([]uint32{512, 1024}).Draw(t, "page_size"),
		Mode:     rapid.SampledFrom([]string{pager.Delete, pager.Truncate, pager.Persist, pager.WAL, pager.WAL}).Draw(t, "mode"),
		Sync:     rapid.SampledFrom([]string{pager.SyncFull, pager.SyncOff}).Draw(t, "sync"),
		At:       rapid.IntRange(1, 40).Draw(t, "at"),
		Expiry:   rapid.Bool().Draw(t, "expiry"),
	}
	txs := gen.Txs(t, 3, 30)
	for _, tx := range txs[:2] {
		wt := pager.WalTx{Tx: tx}
		wt.Rollback, wt.NoWrite = false, false
		p.Setup = append(p.Setup, wt)
	}
	p.Tx = pager.WalTx{Tx: txs[2]}
	p.Tx.Rollback, p.Tx.NoWrite = false, false
	return p
}

func runDemotePlan(c *pbt.Case, p DemotePlan) {
	base := c.TempDir()
	cl := cluster.New(base, 20*time.Millisecond)
	c.Cleanup(cl.Close)
	cl.DBs[dbName] = &cluster.DBConfig{Name: dbName, PageSize: p.PageSize, JournalMode: p.Mode, Sync: p.Sync, Sector: 512}
	n0, err := cl.AddNode("n0", cluster.NodeOpts{Candidate: true})
	if err != nil {
		c.Failf("C07/setup", "%v", err)
	}
	if err := cl.WaitPrimary(n0, 10*time.Second); err != nil {
		c.Failf("C07/setup", "%v", err)
	}
	for i, tx := range p.Setup {
		if wr, err := n0.Write(dbName, tx); err != nil || wr.Err != nil {
			c.Failf("C07/setup", "setup transaction %d: %v %v", i, err, wr.Err)
		}
	}
	pre := n0.Pos(dbName)
	preLTX, _, _ := ref.ListLTXDir(n0.LTXDir(dbName))
	c.Labelf("mode:%s", p.Mode)

	// Store.Exit means the process is gone: freeze the data directory at that instant.
	exitImage := filepath.Join(base, "exit-image")
	frozen := false
	n0.OnExit = func(int) {
		if !frozen {
			frozen = true
			_ = crash.CopyDir(n0.Dir, exitImage)
		}
	}

	// keep the node from taking the lease back while the transaction is still in flight
	count, lostAt := 0, ""
	lost, commitStepBegan := false, false
	hook := func(op string) {
		count++
		if count != p.At || lost {
			return
		}
		lost, lostAt = true, op
		commitStepBegan = n0.CommitReturned(dbName) // the finalising operation had already returned
		cl.Svc.SetAcquireErr("n0", fmt.Errorf("scripted: lease service unavailable"))
		if p.Expiry {
			cl.Svc.Expire()
		} else {
			n0.Store.Demote()
		}
		deadline := time.Now().Add(10 * time.Second)
		for n0.Store.IsPrimary() {
			if time.Now().After(deadline) {
				panic("node did not give up the primary role within 10s of losing its lease")
			}
			time.Sleep(100 * time.Microsecond)
		}
	}
	n0.SetOnOp(dbName, hook)
	wr, err := n0.Write(dbName, p.Tx)
	if err != nil {
		c.Failf("C07/harness", "%v", err)
	}
	n0.SetOnOp(dbName, nil)
	n0.CloseConns() // the connection releases its locks; role-change recovery may now run
	c.Notef("lease lost before op %d (%q); tx result committed=%v err=%v pos %s -> %s", p.At, lostAt, wr.Committed, wr.Err, pre, n0.Pos(dbName))
	if a := cl.LeaseAnomalies(); len(a) > 0 {
		c.Failf("C07/primary-after-giving-lease-back", "%s", a[0])
	}
	switch {
	case !lost:
		c.Label("transaction-finished-before-loss")
	case commitStepBegan:
		c.Label("commit-step-began-before-loss")
	default:
		c.Label("lost-authority-before-commit-step")
		c.NonTrivial()
	}
	if ex := n0.Exits(); len(ex) > 0 {
		// LiteFS reacts to a WAL commit it can no longer publish by exiting; in
		// production the process is gone at this point, so restart it.
		if !lost || commitStepBegan {
			c.Failf("C07/store-exit", "Store.Exit(%v) although the node had write authority when the commit step began", ex)
		}
		c.Label("exit-instead-of-publishing")
		n0.Stop()
		n0.DirOverride = exitImage
		if err := n0.Start(); err != nil {
			c.Failf("C07/restart-failed", "after Exit(%v): reopening the data directory as it was when the process exited: %v", ex, err)
		}
	}

	// The node's state-change recovery needs the locks the connection held; it runs
	// in the background once they are free. Run the same recovery synchronously as
	// well so that the judgement below never happens before it.
	if !frozen {
		rctx, rcancel := context.WithTimeout(context.Background(), 10*time.Second)
		rerr := n0.Store.Recover(rctx)
		rcancel()
		c.Notef("explicit role-change recovery: %v", rerr)
	}
	var settled cluster.ReadResult
	deadline := time.Now().Add(5 * time.Second)
	for {
		res, rerr := n0.Read(dbName)
		journalGone := !n0.M.Exists(dbName + "-journal")
		if b, e := os.ReadFile(filepath.Join(n0.DBDir(dbName), "journal")); e == nil && (len(b) < 8 || b[0] == 0) {
			journalGone = true
		}
		if rerr == nil && journalGone {
			if img, ok := cl.Hist.Lookup(dbName, res.Pos); ok && res.Image.Diff(img) == "" {
				settled = res
				break
			}
		}
		if time.Now().After(deadline) {
			pos := n0.Pos(dbName)
			img, _ := cl.Hist.Lookup(dbName, pos)
			d := "?"
			if rerr == nil && img != nil {
				d = res.Image.Diff(img)
			}
			c.Failf("C07/not-restored-after-demotion", "after the connection released its locks and role-change recovery ran, the node at %s does not show the image committed there (journal gone=%v, read err=%v): %s", pos, journalGone, rerr, d)
		}
		time.Sleep(time.Millisecond)
	}
	pos := settled.Pos
	if lost && !commitStepBegan {
		// the commit step (if it was reached at all) began after the node had lost write authority
		if pos != pre {
			c.Failf("C07/published-after-loss", "the lease was lost before operation %d (%q), before the commit step began, but the position went %s -> %s", p.At, lostAt, pre, pos)
		}
		postLTX, _, _ := ref.ListLTXDir(n0.LTXDir(dbName))
		if len(postLTX) != len(preLTX) {
			c.Failf("C07/ltx-after-loss", "a transaction file appeared although the node had lost write authority before the commit step: %v -> %v", preLTX, postLTX)
		}
		if wr.Err == nil && p.Mode != pager.WAL {
			c.Failf("C07/not-refused", "the transaction continued after the lease was lost (before op %d %q) and every operation including the journal finalisation reported success", p.At, lostAt)
		}
	}
	if ex := n0.Exits(); len(ex) > 0 {
		c.Failf("C07/store-exit", "Store.Exit(%v)", ex)
	}
	if sig, msg := n0.Monitors(dbName); sig != "" {
		c.Failf(sig, "after demotion: %s", msg)
	}
	cl.Svc.SetAcquireErr("n0", nil)
}

var demoteProp = pbt.Prop[DemotePlan]{ID: "C07", Name: "lease-loss", Gen: genDemotePlan, Run: runDemotePlan}

func TestProp_lease_loss(t *testing.T) { demoteProp.Check(t) }

func TestReplay(t *testing.T) { pbt.Replay(t, replicaProp, demoteProp, sqlReplicaProp, importWaitProp) }

var _ = context.Background
