// Package c13 decides property C13: write forwarding under a halt lock is
// exclusive, ordered and acknowledged.
package c13

import (
	"bytes"
	"context"
	"fmt"
	"io"
	"net/http"
	"testing"
	"time"

	"github.com/superfly/litefs"
	"github.com/superfly/litefs/verif/cluster"
	"github.com/superfly/litefs/verif/gen"
	"github.com/superfly/litefs/verif/mount"
	"github.com/superfly/litefs/verif/pager"
	"github.com/superfly/litefs/verif/pbt"
	"github.com/superfly/litefs/verif/ref"
	"github.com/superfly/ltx"
	"pgregory.net/rapid"
)

const dbName = "db.sqlite"

const (
	KAcquire  = "acquire"      // the replica takes the halt lock through its <db>-lock file
	KRCommit  = "replica-tx"   // the replica runs a transaction
	KRelease  = "release"      // unlock (or close) the lock file
	KExpire   = "expire"       // the primary's TTL passes and it enforces expiry
	KPWrite   = "primary-tx"   // a local transaction attempt on the primary
	KPCkpt    = "primary-ckpt" // a local checkpoint attempt on the primary
	KStray    = "stray-tx"     // POST /tx from somebody who does not hold the lock
	KFault    = "fault"        // arm a lost / duplicated response
	KPChange  = "primary-change"
	KQuiesce  = "quiesce"
)

type Step struct {
	Kind  string      `json:"k"`
	Tx    pager.WalTx `json:"tx,omitempty"`
	N     int         `json:"n,omitempty"`
	Close bool        `json:"close,omitempty"`
}

type Plan struct {
	PageSize uint32        `json:"page_size"`
	Mode     string        `json:"mode"`
	Third    bool          `json:"third"` // a second replica that only follows
	Setup    []pager.WalTx `json:"setup"`
	Steps    []Step        `json:"steps"`
}

func genPlan(t *rapid.T) Plan {
	p := Plan{
		PageSize: rapid.SampledFrom([]uint32{512, 1024}).Draw(t, "page_size"),
		Mode:     rapid.SampledFrom([]string{pager.Delete, pager.Persist, pager.WAL, pager.WAL}).Draw(t, "mode"),
		Third:    rapid.Bool().Draw(t, "third"),
	}
	n := rapid.IntRange(3, 24).Draw(t, "nsteps")
	txs := gen.Txs(t, n+2, 40)
	for _, tx := range txs[:2] {
		wt := pager.WalTx{Tx: tx}
		wt.Rollback, wt.NoWrite = false, false
		p.Setup = append(p.Setup, wt)
	}
	for i := 0; i < n; i++ {
		tx := pager.WalTx{Tx: txs[i+2]}
		tx.NoWrite = false
		switch k := rapid.IntRange(0, 29).Draw(t, "kind"); {
		case k < 6:
			// N=1: the request arrives while a local transaction of the primary is in flight
			p.Steps = append(p.Steps, Step{Kind: KAcquire, Tx: tx, N: rapid.IntRange(0, 2).Draw(t, "during_write") / 2})
		case k < 14:
			p.Steps = append(p.Steps, Step{Kind: KRCommit, Tx: tx})
		case k < 17:
			p.Steps = append(p.Steps, Step{Kind: KRelease, Close: rapid.Bool().Draw(t, "close")})
		case k < 18:
			p.Steps = append(p.Steps, Step{Kind: KExpire})
		case k < 22:
			p.Steps = append(p.Steps, Step{Kind: KPWrite, Tx: tx})
		case k < 23:
			p.Steps = append(p.Steps, Step{Kind: KPCkpt, N: rapid.IntRange(0, 3).Draw(t, "ckpt")})
		case k < 26:
			p.Steps = append(p.Steps, Step{Kind: KStray, N: rapid.IntRange(0, 3).Draw(t, "variant")})
		case k < 28:
			p.Steps = append(p.Steps, Step{Kind: KFault, N: rapid.IntRange(0, 3).Draw(t, "fault")})
		case k < 29:
			p.Steps = append(p.Steps, Step{Kind: KPChange})
		default:
			p.Steps = append(p.Steps, Step{Kind: KQuiesce})
		}
	}
	p.Steps = append(p.Steps, Step{Kind: KRelease}, Step{Kind: KQuiesce})
	return p
}

// strayLTX builds a well-formed transaction file that extends pos exactly.
func strayLTX(img *ref.Image, pos ref.Pos) ([]byte, *ref.Image) {
	next := img.Clone()
	ps := img.PageSize
	hdr := append([]byte(nil), img.Page(1)...)
	hdr[27]++ // bump the change counter: the page differs from the committed one
	next.Set(1, hdr)
	var buf bytes.Buffer
	enc := ltx.NewEncoder(&buf)
	_ = enc.EncodeHeader(ltx.Header{Version: 1, PageSize: ps, Commit: next.N(), MinTXID: ltx.TXID(pos.TXID + 1), MaxTXID: ltx.TXID(pos.TXID + 1), Timestamp: 1, PreApplyChecksum: ltx.Checksum(pos.Checksum), NodeID: 0xbad})
	_ = enc.EncodePage(ltx.PageHeader{Pgno: 1}, hdr)
	enc.SetPostApplyChecksum(ltx.Checksum(next.Checksum()))
	_ = enc.Close()
	return buf.Bytes(), next
}

func runPlan(c *pbt.Case, p Plan) {
	base := c.TempDir()
	cl := cluster.New(base, 50*time.Millisecond)
	c.Cleanup(cl.Close)
	cl.DBs[dbName] = &cluster.DBConfig{Name: dbName, PageSize: p.PageSize, JournalMode: p.Mode, Sync: pager.SyncOff, Sector: 512}
	ttl := 5 * time.Millisecond
	opts := cluster.NodeOpts{Candidate: true, Configure: func(s *litefs.Store) { s.HaltLockTTL = ttl }}
	pr, err := cl.AddNode("p", opts)
	if err != nil {
		c.Failf("C13/setup", "%v", err)
	}
	if err := cl.WaitPrimary(pr, 10*time.Second); err != nil {
		c.Failf("C13/setup", "%v", err)
	}
	rp, err := cl.AddNode("r", opts)
	if err != nil {
		c.Failf("C13/setup", "%v", err)
	}
	var third *cluster.CNode
	if p.Third {
		if third, err = cl.AddNode("t", cluster.NodeOpts{Candidate: false}); err != nil {
			c.Failf("C13/setup", "%v", err)
		}
	}
	for i, tx := range p.Setup {
		if wr, err := pr.Write(dbName, tx); err != nil || wr.Err != nil {
			c.Failf("C13/setup", "setup transaction %d: %v %v", i, err, wr.Err)
		}
	}
	pr.CloseConns()
	if err := cl.WaitConverged(20 * time.Second); err != nil {
		c.Failf("C13/setup", "%v", err)
	}
	c.Labelf("mode:%s", p.Mode)

	// Store.Exit is process death: the cluster harness freezes the directory at that
	// instant and restarts the node on it (Cluster.Supervise).
	rp.Supervise = true
	seenExits := 0

	var lockFile *mount.File // the replica application's handle on <db>-lock
	halted := false          // the replica believes it holds the halt lock
	grantAlive := false      // ... and the primary has neither released nor expired it
	var lastLockID int64
	forwarded, duringHalt := 0, 0
	// rDirty: a transaction of the replica's application was refused at its commit
	// step and is therefore unfinished (hot journal / uncommitted frames). Like any
	// node with a transaction in flight its files are not at a quiescent point until
	// the halt is released (LiteFS then recovers).
	rDirty := false
	faultArmed := false

	image := func(n *cluster.CNode) *ref.Image {
		pos := n.Pos(dbName)
		img, ok := cl.Hist.Lookup(dbName, pos)
		if !ok {
			c.Failf("C13/unknown-position", "node %s reports %s which nobody committed", n.Name, pos)
		}
		return img
	}
	verify := func(i int, what string) {
		for _, n := range cl.Nodes {
			if !n.Up {
				continue
			}
			if ex := n.Exits(); len(ex) > 0 && n != rp {
				c.Failf("C13/store-exit", "step %d (%s): node %s called Store.Exit(%v)", i, what, n.Name, ex)
			}
			if n == rp && len(rp.Exited()) > seenExits {
				// the replica's process ended in the background (it could not apply or forward
				// something after its halt lock was gone): it restarts like any crashed process
				seenExits = len(rp.Exited())
				c.Label("observed:replica-exit-in-background")
				if _, err := cl.Supervise(); err != nil {
					c.Failf("C13/restart-failed", "step %d (%s): %v", i, what, err)
				}
				lockFile, halted, grantAlive, rDirty = nil, false, false, false
				time.Sleep(ttl + 2*time.Millisecond)
				pr.Store.EnforceHaltLockExpiration(context.Background())
				continue
			}
			if n == rp && rDirty {
				continue
			}
			var sig, msg string
			res, err := n.ReadUnder(dbName, func() { sig, msg = n.Monitors(dbName) })
			if err != nil || res.Pos.TXID == 0 {
				continue
			}
			if sig != "" {
				c.Failf(sig, "step %d (%s): node %s: %s", i, what, n.Name, msg)
			}
			img, ok := cl.Hist.Lookup(dbName, res.Pos)
			if !ok {
				c.Failf("C13/unknown-position", "step %d (%s): node %s reports %s which nobody committed", i, what, n.Name, res.Pos)
			}
			if d := res.Image.Diff(img); d != "" {
				c.Failf("C13/image-mismatch", "step %d (%s): node %s at %s: %s", i, what, n.Name, res.Pos, d)
			}
		}
	}
	release := func(closeIt bool) {
		if lockFile == nil {
			return
		}
		rp.CloseConns()
		if closeIt {
			_ = lockFile.Close()
			lockFile = nil
		} else {
			_ = lockFile.SetLk(mount.UnLck, 72, 72)
		}
		halted, grantAlive = false, false
		rDirty = false // releasing the halt lock makes LiteFS roll back / checkpoint what the application left
	}

	pp0 := func(n *cluster.CNode) ref.Pos { return n.Pos(dbName) }
	// recordLostAck: the primary applied a forwarded file whose acknowledgement was
	// lost. The file either carries the transaction the holder was committing or, if
	// the holder was rolling back a hot journal, the restored (unchanged) image.
	recordLostAck := func(pp, before ref.Pos, beforeImg *ref.Image, wr cluster.WriteResult) {
		if pp.TXID != before.TXID+1 {
			return
		}
		img := wr.Attempt
		if pp.Checksum == before.Checksum || img == nil || img.Checksum() != pp.Checksum {
			img = beforeImg
		}
		if img.Checksum() != pp.Checksum {
			c.Failf("C13/unknown-position", "the primary moved to %s after a forwarded commit whose acknowledgement was lost, which is neither the image the holder was committing nor the previous one", pp)
		}
		if err := cl.Hist.Record(dbName, pp, img); err != nil {
			c.Failf("C13/harness", "%v", err)
		}
		c.Label("applied-on-primary-ack-lost")
	}

	for i, st := range p.Steps {
		c.Notef("step %d %+v halted=%v grantAlive=%v", i, st, halted, grantAlive)
		primary := cl.Primary()
		switch st.Kind {
		case KAcquire:
			if halted || primary != pr || rp.Store.IsPrimary() {
				break
			}
			// the replica must know the primary (it may just have been demoted itself)
			for w := 0; w < 5000; w++ {
				if _, info := rp.Store.PrimaryInfo(); info != nil && pr.Store.SubscriberByNodeID(rp.Store.ID()) != nil {
					break
				}
				time.Sleep(time.Millisecond)
			}
			if _, info := rp.Store.PrimaryInfo(); info == nil {
				c.Label("acquire-skipped-not-connected")
				break
			}
			pr.CloseConns() // the primary's application is idle: the halt can be granted
			if lockFile == nil {
				f, err := rp.M.Open(7001, dbName+"-lock")
				if err != nil {
					c.Failf("C13/op-error", "step %d: open %s-lock: %v", i, dbName, err)
				}
				lockFile = f
			}
			var lerr error
			if st.N == 1 {
				// The request reaches the primary while one of its own transactions holds
				// the write lock; the halt is granted only after that transaction is over,
				// at the position it produced.
				done := make(chan error, 1)
				started := false
				ops := 0
				pr.SetOnOp(dbName, func(op string) {
					if ops++; ops == 3 && !started {
						started = true
						go func() {
							ctx, cancel := context.WithTimeout(context.Background(), 10*time.Second)
							defer cancel()
							done <- lockFile.SetLkWait(ctx, mount.WrLck, 72, 72)
						}()
						time.Sleep(3 * time.Millisecond)
					}
				})
				tx := st.Tx
				tx.Rollback = false
				wr, werr := pr.TryWrite(dbName, tx)
				pr.SetOnOp(dbName, nil)
				if werr != nil {
					c.Failf("C13/harness", "step %d: %v", i, werr)
				}
				pr.CloseConns()
				if started {
					lerr = <-done
					c.Label("acquire-during-primary-write")
					if wr.Committed {
						c.Label("acquire-waited-for-a-commit")
					}
				} else {
					lerr = fmt.Errorf("not attempted")
				}
			}
			for attempt := 0; attempt < 3 && (st.N != 1 || lerr != nil); attempt++ { // an application retries an interrupted fcntl
				ctx, cancel := context.WithTimeout(context.Background(), 10*time.Second)
				lerr = lockFile.SetLkWait(ctx, mount.WrLck, 72, 72)
				cancel()
				if lerr == nil {
					break
				}
				c.Label("acquire-retried")
			}
			if lerr != nil {
				c.Failf("C13/acquire-failed", "step %d: the halt lock could not be acquired in three attempts although the primary is idle: %v", i, lerr)
			}
			halted, grantAlive = true, true
			if hl := rp.Store.DB(dbName).RemoteHaltLock(); hl != nil {
				lastLockID = hl.ID
			}
			// the replica starts writing from exactly the primary's position
			if a, b := rp.Pos(dbName), pr.Pos(dbName); a != b {
				c.Failf("C13/acquire-position", "step %d: the halt lock was granted but the replica is at %s and the primary at %s", i, a, b)
			}
			// repeated acquire requests with the same lock id return the same lock
			hl1, err1 := rp.FC.Inner.AcquireHaltLock(context.Background(), pr.URL, rp.Store.ID(), dbName, lastLockID)
			hl2, err2 := rp.FC.Inner.AcquireHaltLock(context.Background(), pr.URL, rp.Store.ID(), dbName, lastLockID)
			if err1 != nil || err2 != nil || hl1.ID != hl2.ID || hl1.Pos != hl2.Pos || hl1.ID != lastLockID {
				c.Failf("C13/acquire-not-idempotent", "step %d: repeating the acquire request with id %d: %+v %v / %+v %v", i, lastLockID, hl1, err1, hl2, err2)
			}
			c.Label("halt-acquired")
		case KRCommit:
			if rp.Store.IsPrimary() {
				break
			}
			before := pr.Pos(dbName)
			beforeImg := image(pr)
			faultArmed = rp.FC.Armed() // a one-shot fault stays armed until a request consumes it
			wr, err := rp.TryWrite(dbName, st.Tx)
			if err != nil {
				c.Failf("C13/harness", "step %d: %v", i, err)
			}
			c.Notef("  replica tx: committed=%v err=%v replica %s primary %s", wr.Committed, wr.Err, rp.Pos(dbName), pr.Pos(dbName))
			exited := len(rp.Exited()) > seenExits
			seenExits = len(rp.Exited())
			if exited && halted && grantAlive && primary == pr && !faultArmed && !rDirty {
				c.Failf("C13/store-exit", "step %d: the halt lock holder's commit made the replica call Store.Exit(%v) although no fault is armed", i, rp.Exited())
			}
			if exited && (faultArmed || rDirty) {
				// a WAL commit whose forwarding failed (lost acknowledgement) ends the process;
				// the primary may have applied it all the same
				recordLostAck(pp0(pr), before, beforeImg, wr)
				faultArmed = false
			}
			switch {
			case exited:
				// handled below: the process is gone
			case halted && grantAlive && primary == pr:
				if wr.Err != nil && wr.Err != pager.ErrBusy {
					if faultArmed || rDirty {
						// a lost or duplicated /tx response makes the holder's commit fail; it
						// then is an unfinished transaction like any other refused commit
						c.Label("holder-commit-failed-under-fault")
						rDirty = true
						// the primary may have applied it all the same (the acknowledgement was lost)
						recordLostAck(pp0(pr), before, beforeImg, wr)
					} else {
						c.Failf("C13/holder-refused", "step %d: the halt lock holder's transaction was refused although no fault is armed: %v", i, wr.Err)
					}
				}
				faultArmed = false
				if wr.Committed && wr.Pos != wr.Prev {
					// acknowledged: the primary already has it under the same id and checksum
					if pp := pr.Pos(dbName); pp != wr.Pos {
						c.Failf("C13/not-acknowledged", "step %d: the replica's commit returned at %s but the primary is at %s (was %s)", i, wr.Pos, pp, before)
					}
					res, err := pr.Read(dbName)
					if err == nil {
						if d := res.Image.Diff(image(rp)); d != "" {
							c.Failf("C13/primary-image", "step %d: after a forwarded commit the primary's image differs from the replica's: %s", i, d)
						}
					}
					forwarded++
					c.Label("forwarded-commit")
				}
			case !halted:
				// no write authority at all (C07): must be refused
				if wr.Err != nil && wr.Err != pager.ErrBusy {
					rDirty = false // nothing was written: every write was refused
				}
				if wr.Err == nil && wr.Committed {
					c.Failf("C13/published-without-lock", "step %d: a replica without the halt lock committed a transaction: %s -> %s", i, wr.Prev, wr.Pos)
				}
			default:
				// the replica believes it holds the lock but the primary released or
				// expired it (or changed): the commit must not be published anywhere
				if pp := pr.Pos(dbName); pp != before && primary == pr {
					c.Failf("C13/published-after-expiry", "step %d: the halt lock is gone on the primary (expired or released) but a commit by the former holder moved the primary from %s to %s", i, before, pp)
				}
				if wr.Committed && wr.Err == nil && wr.Pos != wr.Prev {
					c.Failf("C13/former-holder-committed", "step %d: the former holder's commit returned success (%s -> %s) although its halt lock is gone", i, wr.Prev, wr.Pos)
				}
				c.Label("former-holder-commit-attempt")
				duringHalt++
				if wr.Err != nil && wr.Err != pager.ErrBusy {
					rDirty = true
				}
			}
			if exited {
				// refusing a WAL commit that cannot be forwarded ends the process (see C07):
				// it restarts on the directory as it was at that instant
				c.Label("observed:exit-on-refused-forward")
				if _, err := cl.Supervise(); err != nil {
					c.Failf("C13/restart-failed", "step %d: %v", i, err)
				}
				lockFile, halted, grantAlive, rDirty = nil, false, false, false
				// the dead process never released its halt lock: on the primary it ends by expiry
				time.Sleep(ttl + 2*time.Millisecond)
				pr.Store.EnforceHaltLockExpiration(context.Background())
			}
		case KRelease:
			if halted {
				c.Label("release")
			}
			release(st.Close)
		case KExpire:
			if !grantAlive {
				break
			}
			time.Sleep(ttl + 2*time.Millisecond)
			pr.Store.EnforceHaltLockExpiration(context.Background())
			grantAlive = false
			c.Label("expiry")
			duringHalt++
		case KPWrite:
			if primary == nil {
				break
			}
			before := primary.Pos(dbName)
			wr, err := primary.TryWrite(dbName, st.Tx)
			if err != nil {
				c.Failf("C13/harness", "step %d: %v", i, err)
			}
			if grantAlive && primary == pr {
				duringHalt++
				c.Label("primary-write-during-halt")
				if wr.Committed || primary.Pos(dbName) != before {
					c.Failf("C13/primary-wrote-during-halt", "step %d: while the halt lock is granted the primary committed a local transaction: %s -> %s", i, before, primary.Pos(dbName))
				}
				primary.CloseConns()
			} else if wr.Err != nil && wr.Err != pager.ErrBusy {
				c.Failf("C13/primary-cannot-write", "step %d: no halt lock is outstanding but a local transaction on the primary was refused: %v", i, wr.Err)
			} else if wr.Committed {
				c.Label("primary-commit")
				if !grantAlive && halted {
					c.Label("primary-commit-after-expiry")
				}
			}
		case KPCkpt:
			if primary == nil || p.Mode != pager.WAL {
				break
			}
			res, err := primary.Checkpoint(dbName, st.N)
			if grantAlive && primary == pr {
				duringHalt++
				if err == nil && res.Backfilled > 0 {
					c.Failf("C13/primary-checkpoint-during-halt", "step %d: while the halt lock is granted a checkpoint on the primary copied %d frames", i, res.Backfilled)
				}
				primary.CloseConns()
			}
		case KStray:
			if primary == nil {
				break
			}
			pos := primary.Pos(dbName)
			img := image(primary)
			body, _ := strayLTX(img, pos)
			id := int64(0)
			switch st.N {
			case 1:
				id = 123456789 // never issued
			case 2:
				id = lastLockID + 1
			case 3:
				if !grantAlive {
					id = lastLockID // stale: released or expired
				} else {
					id = -lastLockID
				}
			}
			u := fmt.Sprintf("%s/tx?name=%s", primary.URL, dbName)
			if st.N != 0 {
				u += fmt.Sprintf("&lockID=%d", id)
			}
			req, _ := http.NewRequest("POST", u, bytes.NewReader(body))
			req.Header.Set("Litefs-Id", "00000000000BAD00")
			resp, err := http.DefaultClient.Do(req)
			if err != nil {
				c.Failf("C13/no-response", "step %d: stray POST /tx: %v", i, err)
			}
			msg, _ := io.ReadAll(resp.Body)
			resp.Body.Close()
			duringHalt++
			c.Labelf("stray-tx-variant-%d", st.N)
			if after := primary.Pos(dbName); after != pos || resp.StatusCode == 200 {
				c.Failf("C13/tx/non-holder-accepted", "step %d: POST /tx with lock id %d (variant %d, halt granted=%v, current id %d) from a node that does not hold the halt lock got status %d and the primary went %s -> %s: %s", i, id, st.N, grantAlive, lastLockID, resp.StatusCode, pos, after, bytes.TrimSpace(msg))
			}
		case KFault:
			switch st.N {
			case 0:
				rp.FC.DropHaltResp = 1
			case 1:
				rp.FC.DropCommitResp = 1
			case 2:
				rp.FC.DropReleaseResp = 1
			default:
				rp.FC.DupCommit = 1
			}
			c.Labelf("fault-%d", st.N)
			duringHalt++
		case KPChange:
			if primary != pr || !halted {
				break
			}
			// the primary changes while a halt is held: the old grant dies with the role
			rp.CloseConns()
			pr.CloseConns()
			release(true)
			if err := cl.MakePrimary(rp, false, 20*time.Second); err != nil {
				c.Failf("C13/harness", "step %d: %v", i, err)
			}
			if err := cl.MakePrimary(pr, false, 20*time.Second); err != nil {
				c.Failf("C13/harness", "step %d: %v", i, err)
			}
			c.Label("primary-change")
			duringHalt++
		case KQuiesce:
			release(false)
			rp.FC.DropHaltResp, rp.FC.DropCommitResp, rp.FC.DropReleaseResp, rp.FC.DupCommit = 0, 0, 0, 0
			faultArmed = false
			if primary == nil {
				break
			}
			// the primary can write again once the lock is released or expired ...
			primary.CloseConns()
			wr, err := primary.Write(dbName, pager.WalTx{Tx: pager.Tx{NewSize: primary.ModelSize(dbName, cl), Fill: byte(i), Writes: []pager.Write{{Pgno: 2, Ver: uint32(i + 1000)}}}})
			if err != nil {
				c.Failf("C13/harness", "step %d: %v", i, err)
			}
			if wr.Err != nil || !wr.Committed {
				c.Failf("C13/primary-cannot-write", "step %d: after release/expiry the primary cannot commit locally: committed=%v err=%v", i, wr.Committed, wr.Err)
			}
			primary.CloseConns()
			// ... and every replica, the former holder included, converges
			if err := cl.WaitConverged(20 * time.Second); err != nil {
				c.Failf("C13/liveness/no-convergence", "step %d: after the halt lock was released or expired and the primary committed: %v", i, err)
			}
			c.Label("quiesce")
		}
		_ = third
		verify(i, st.Kind)
	}
	if lockFile != nil {
		_ = lockFile.Close()
	}
	if forwarded > 0 && duringHalt > 0 {
		c.NonTrivial()
	}
}

var haltProp = pbt.Prop[Plan]{ID: "C13", Name: "halt", Gen: genPlan, Run: runPlan}

func TestProp_halt(t *testing.T) { haltProp.Check(t) }

func TestReplay(t *testing.T) { pbt.Replay(t, haltProp, sqlHaltProp) }
