package c13

import (
	"context"
	"database/sql"
	"fmt"
	"sort"
	"strings"
	"testing"
	"time"

	"github.com/superfly/litefs/verif/cluster"
	"github.com/superfly/litefs/verif/mount"
	"github.com/superfly/litefs/verif/pager"
	"github.com/superfly/litefs/verif/pbt"
	"github.com/superfly/litefs/verif/ref"
	"github.com/superfly/litefs/verif/sqlvfs"
	"github.com/superfly/litefs/verif/sqlwork"
	"pgregory.net/rapid"
)

// Two real SQLite applications share one database: one on the primary, one on a
// replica that takes the halt lock for its turns (what litefs-go's Halt/Unhalt
// do: F_SETLKW / unlock of byte 72 of "<db>-lock"). Turns alternate at generated
// statements of one SQL workload. Every commit of the replica's SQLite - whatever
// file operations SQLite chooses for it, in rollback-journal and WAL mode - must
// be on the primary under the same position when the statement returns; whoever
// writes next starts from exactly what the other one left; a third node that only
// reads must see, at every position it is found at, what the writer saw there.

type SQLHaltPlan struct {
	SQL     sqlwork.Plan `json:"sql"`
	Turns   []int        `json:"turns"`   // statement indexes at which the writer changes (primary first)
	Release []string     `json:"release"` // per turn of the replica: "unlock" or "close"
	Reader  bool         `json:"reader"`  // a third node with a reading SQLite
	Settle  bool         `json:"settle"`  // wait for the replica to catch up before it asks for the lock
}

func genSQLHaltPlan(t *rapid.T) SQLHaltPlan {
	p := SQLHaltPlan{SQL: sqlwork.Gen(t, []string{"DELETE", "TRUNCATE", "PERSIST", "WAL", "WAL"}), Reader: rapid.Bool().Draw(t, "reader"), Settle: rapid.Bool().Draw(t, "settle")}
	nt := rapid.IntRange(1, 6).Draw(t, "nturns")
	seen := map[int]bool{}
	for i := 0; i < nt; i++ {
		at := rapid.IntRange(0, len(p.SQL.Ops)-1).Draw(t, "turn_at")
		if !seen[at] {
			seen[at] = true
			p.Turns = append(p.Turns, at)
		}
	}
	sort.Ints(p.Turns)
	for range p.Turns {
		p.Release = append(p.Release, rapid.SampledFrom([]string{"unlock", "unlock", "close"}).Draw(t, "release"))
	}
	return p
}

const sqlDigest = "SELECT count(*) || '/' || ifnull(sum(id),0) || '/' || ifnull(sum(k),0) || '/' || ifnull(sum(length(v)),0) || '/' || ifnull(group_concat(id || ':' || k || ':' || hex(substr(v,1,6)), ','), '') FROM (SELECT id, k, v FROM t ORDER BY id)"

func runSQLHaltPlan(c *pbt.Case, p SQLHaltPlan) {
	name := sqlwork.Name
	cl := cluster.New(c.TempDir(), 50*time.Millisecond)
	c.Cleanup(cl.Close)
	cl.DBs[name] = &cluster.DBConfig{Name: name, PageSize: uint32(p.SQL.PageSize), JournalMode: pager.Delete, Sync: pager.SyncOff, Sector: 512}
	pr, err := cl.AddNode("p", cluster.NodeOpts{Candidate: true})
	if err != nil {
		c.Failf("C13/setup", "%v", err)
	}
	if err := cl.WaitPrimary(pr, 10*time.Second); err != nil {
		c.Failf("C13/setup", "%v", err)
	}
	rp, err := cl.AddNode("r", cluster.NodeOpts{})
	if err != nil {
		c.Failf("C13/setup", "%v", err)
	}
	nodes := []*cluster.CNode{pr, rp}
	var rd *cluster.CNode
	if p.Reader {
		if rd, err = cl.AddNode("o", cluster.NodeOpts{}); err != nil {
			c.Failf("C13/setup", "%v", err)
		}
		nodes = append(nodes, rd)
	}
	c.Labelf("mode:%s", p.SQL.Mode)
	apps := map[*cluster.CNode]*sql.DB{}
	open := func(n *cluster.CNode, busy int) *sql.DB {
		sqlvfs.Mount(n.Name, n.Store, n.M.Root)
		db, err := sql.Open("sqlite3", fmt.Sprintf("file:/%s/%s?vfs=litefs&_busy_timeout=%d", n.Name, name, busy))
		if err != nil {
			c.Failf("C13/setup", "%v", err)
		}
		db.SetMaxOpenConns(1)
		for _, q := range []string{
			"PRAGMA temp_store=MEMORY",
			fmt.Sprintf("PRAGMA cache_size=%d", p.SQL.CacheSize),
			"PRAGMA synchronous=" + p.SQL.Sync,
			fmt.Sprintf("PRAGMA wal_autocheckpoint=%d", p.SQL.AutoCkpt),
		} {
			_, _ = db.Exec(q)
		}
		apps[n] = db
		return db
	}
	c.Cleanup(func() {
		for _, db := range apps {
			_ = db.Close()
		}
	})
	exited := func(what string) {
		for _, n := range nodes {
			if ex := n.Exited(); len(ex) > 0 {
				c.Failf("C13/store-exit", "%s: node %s called Store.Exit(%v)", what, n.Name, ex)
			}
		}
	}

	// ---- setup on the primary ----
	app := open(pr, 2000)
	for _, q := range []string{
		fmt.Sprintf("PRAGMA page_size=%d", p.SQL.PageSize),
		fmt.Sprintf("PRAGMA auto_vacuum=%d", p.SQL.AutoVac),
		"PRAGMA journal_mode=" + p.SQL.Mode,
		"CREATE TABLE t(id INTEGER PRIMARY KEY, k INT, v BLOB)",
		"INSERT INTO t(k,v) VALUES (0, randomblob(40))",
	} {
		if _, err := app.Exec(q); err != nil {
			c.Failf("C13/sqlite-error", "setup %q: %v", q, err)
		}
	}
	if err := cl.WaitConverged(20 * time.Second); err != nil {
		c.Failf("C13/liveness/no-convergence", "setup: %v", err)
	}
	open(rp, 2000)
	if rd != nil {
		open(rd, 200)
	}

	digests := map[ref.Pos]string{}
	var lastDigest string
	var lastPos ref.Pos
	writer := pr
	digestOf := func(n *cluster.CNode, what string) (string, error) {
		var d string
		err := apps[n].QueryRow(sqlDigest).Scan(&d)
		return d, err
	}
	record := func(what string) {
		d, err := digestOf(writer, what)
		if err != nil {
			c.Failf("C13/sqlite-error", "%s: the writer's SQLite on %s cannot read its own database: %v", what, writer.Name, err)
		}
		pos := writer.Pos(name)
		if old, ok := digests[pos]; ok && old != d {
			c.Failf("C13/sqlite/two-contents-one-position", "%s: at %s the writer on %s reads %.100q; at the same position %.100q was read before", what, pos, writer.Name, d, old)
		}
		digests[pos] = d
		lastDigest, lastPos = d, pos
	}
	reads := 0
	readOthers := func(what string) {
		if rd == nil {
			return
		}
		pos1 := rd.Pos(name)
		d, err := digestOf(rd, what)
		pos2 := rd.Pos(name)
		if err != nil {
			msg := err.Error()
			if strings.Contains(msg, "locked") || strings.Contains(msg, "busy") || strings.Contains(msg, "locking protocol") || strings.Contains(msg, "no such table") || strings.Contains(msg, "unable to open") {
				c.Label("reader-busy")
				return
			}
			c.Failf("C13/sqlite/reader-error", "%s: SQLite on the reading node at %s: %v", what, pos1, err)
		}
		if pos1 != pos2 {
			return
		}
		if want, ok := digests[pos1]; ok {
			reads++
			if d != want {
				c.Failf("C13/sqlite/reader-differs", "%s: SQLite on the reading node at %s reads %.120q, the writer read %.120q there", what, pos1, d, want)
			}
		}
	}

	// ---- turns ----
	var lock *mount.File
	halts, forwarded := 0, 0
	turn := 0
	release := func(how, what string) {
		if lock == nil {
			return
		}
		if how == "unlock" {
			if err := lock.SetLkWait(context.Background(), mount.UnLck, 72, 72); err != nil {
				c.Failf("C13/release-failed", "%s: unlocking the halt byte: %v", what, err)
			}
		}
		if err := lock.Close(); err != nil && how == "close" {
			c.Failf("C13/release-failed", "%s: closing the lock file: %v", what, err)
		}
		lock = nil
		c.Labelf("release:%s", how)
	}
	c.Cleanup(func() {
		if lock != nil {
			_ = lock.Close()
		}
	})
	change := func(what string) {
		how := p.Release[turn%len(p.Release)]
		turn++
		if writer == pr {
			if p.Settle {
				if err := cl.WaitConverged(20 * time.Second); err != nil {
					c.Failf("C13/liveness/no-convergence", "%s: %v", what, err)
				}
			}
			lf, err := rp.M.Open(7001, name+"-lock")
			if err != nil {
				c.Failf("C13/harness", "%s: open lock file: %v", what, err)
			}
			ctx, cancel := context.WithTimeout(context.Background(), 10*time.Second)
			err = lf.SetLkWait(ctx, mount.WrLck, 72, 72)
			cancel()
			if err != nil {
				_ = lf.Close()
				c.Failf("C13/halt-not-granted", "%s: the replica's application asked for the halt lock with nobody writing: %v", what, err)
			}
			lock, writer = lf, rp
			halts++
			// exactly the primary's position, and what its application left there
			if got, want := rp.Pos(name), pr.Pos(name); got != want {
				c.Failf("C13/replica-not-at-grant-position", "%s: the halt lock is granted and the replica is at %s, the primary at %s", what, got, want)
			}
		} else {
			release(how, what)
			writer = pr
		}
		if lastDigest != "" {
			d, err := digestOf(writer, what)
			if err != nil {
				c.Failf("C13/sqlite-error", "%s: first read of the new writer on %s: %v", what, writer.Name, err)
			}
			if pos := writer.Pos(name); pos != lastPos {
				c.Failf("C13/sqlite/new-writer-elsewhere", "%s: the writer on %s takes over at %s, the previous writer stopped at %s", what, writer.Name, pos, lastPos)
			}
			if d != lastDigest {
				c.Failf("C13/sqlite/new-writer-sees-other-data", "%s: the writer on %s takes over at %s and reads %.120q; the previous writer left %.120q", what, writer.Name, lastPos, d, lastDigest)
			}
		}
	}

	record("setup")
	inTx := false
	ti := 0
	for i, op := range p.SQL.Ops {
		for ti < len(p.Turns) && p.Turns[ti] <= i && !inTx {
			change(fmt.Sprintf("turn before step %d", i))
			ti++
		}
		app := apps[writer]
		if op.Kind == "reopen" {
			_ = app.Close()
			app = open(writer, 2000)
			c.Labelf("reopen-on:%s", map[bool]string{true: "primary", false: "replica"}[writer == pr])
			continue
		}
		if op.Kind == "checkpoint" && (p.SQL.Mode != "WAL" || inTx) {
			continue
		}
		q := op.SQL()
		c.Notef("step %d on %s: %s", i, writer.Name, q)
		before := writer.Pos(name)
		if _, err := app.Exec(q); err != nil {
			msg := err.Error()
			if strings.Contains(msg, "within a transaction") || strings.Contains(msg, "no transaction is active") || (op.Kind == "pragma" && strings.Contains(msg, "locked")) {
				continue
			}
			c.Failf("C13/sqlite-error", "step %d on %s %q: %v", i, writer.Name, q, err)
		}
		exited(fmt.Sprintf("step %d (%s on %s)", i, op.Kind, writer.Name))
		switch op.Kind {
		case "begin":
			inTx = true
		case "commit", "rollback":
			inTx = false
		}
		if writer == rp {
			// acknowledged = applied on the primary under the same ID and checksum
			if got, want := pr.Pos(name), rp.Pos(name); !inTx && got != want {
				c.Failf("C13/sqlite/commit-returned-before-primary-applied", "step %d %q on the halting replica returned; the replica is at %s, the primary at %s", i, q, want, got)
			}
			if rp.Pos(name) != before {
				forwarded++
			}
		}
		if !inTx {
			record(fmt.Sprintf("step %d (%s)", i, q))
		}
		readOthers(fmt.Sprintf("step %d (%s on %s)", i, op.Kind, writer.Name))
	}
	if inTx {
		if _, err := apps[writer].Exec("COMMIT"); err == nil {
			record("final commit")
		}
	}
	release("unlock", "end")
	writer = pr
	if err := cl.WaitConverged(20 * time.Second); err != nil {
		c.Failf("C13/liveness/no-convergence", "end: %v", err)
	}
	exited("end")
	// the primary writes again, and every SQLite reads the same thing at the end
	if _, err := apps[pr].Exec("INSERT INTO t(k,v) VALUES (424242, randomblob(30))"); err != nil {
		c.Failf("C13/primary-cannot-write-after-release", "%v", err)
	}
	record("final insert")
	if err := cl.WaitConverged(20 * time.Second); err != nil {
		c.Failf("C13/liveness/no-convergence", "end: %v", err)
	}
	for _, n := range nodes {
		if n.Pos(name) != lastPos {
			continue
		}
		var d string
		var err error
		for try := 0; try < 200; try++ {
			if d, err = digestOf(n, "end"); err == nil {
				break
			}
			time.Sleep(5 * time.Millisecond)
		}
		if err != nil {
			c.Failf("C13/sqlite-error", "end: SQLite on %s: %v", n.Name, err)
		}
		if d != lastDigest {
			c.Failf("C13/sqlite/nodes-differ-at-end", "SQLite on %s at %s reads %.120q, the last writer read %.120q", n.Name, lastPos, d, lastDigest)
		}
		var res string
		if err := apps[n].QueryRow("PRAGMA integrity_check").Scan(&res); err == nil && res != "ok" {
			c.Failf("C13/sqlite/unsound", "node %s at %s: integrity_check says %q", n.Name, lastPos, res)
		}
		if sig, msg := n.Monitors(name); sig != "" {
			c.Failf(sig, "end: node %s: %s", n.Name, msg)
		}
	}
	c.Observe("halts", int64(halts))
	c.Observe("forwarded-commits", int64(forwarded))
	c.Observe("reader-comparisons", int64(reads))
	if halts > 0 && forwarded > 0 {
		c.NonTrivial()
	}
}

var sqlHaltProp = pbt.Prop[SQLHaltPlan]{ID: "C13", Name: "sqlite-halt", Gen: genSQLHaltPlan, Run: runSQLHaltPlan}

func TestProp_sqlite_halt(t *testing.T) { sqlHaltProp.Check(t) }
