package c06

import (
	"bytes"
	"context"
	"fmt"
	"os"
	"sort"
	"strings"
	"testing"
	"time"

	"github.com/superfly/litefs"
	lhttp "github.com/superfly/litefs/http"
	"github.com/superfly/litefs/internal/chunk"
	"github.com/superfly/litefs/verif/cluster"
	"github.com/superfly/litefs/verif/gen"
	"github.com/superfly/litefs/verif/pager"
	"github.com/superfly/litefs/verif/pbt"
	"github.com/superfly/litefs/verif/ref"
	"github.com/superfly/ltx"
	"pgregory.net/rapid"
)

// Offer kinds, relative to the target's current position (t, c).
const (
	OGood        = "good"          // extends (t, c) exactly: must be accepted
	OGap         = "gap"           // MinTXID = t+1+d, pre-apply checksum c
	ORepeat      = "repeat"        // MinTXID = t-d (>= 2), pre-apply checksum c
	OPreChecksum = "pre-checksum"  // MinTXID = t+1, pre-apply checksum != c
	OBothWrong   = "both-wrong"    // MinTXID = t+1+d and a foreign pre-apply checksum
	OCorruptPage = "corrupt-page"  // extends exactly, one byte of the page block flipped
	OCorruptTail = "corrupt-tail"  // extends exactly, one byte of the trailer flipped
	OTruncated   = "truncated"     // extends exactly, the file ends early
	OGarbageHdr  = "garbage-header" // not an LTX header at all
	OOverlap     = "overlap-range"  // a compacted range [t-d+1, t+1] with pre-apply checksum c: ends right, starts inside the log
	OGoodRange   = "good-range"     // a compacted range [t+1, t+1+d] extending (t, c) exactly: must be accepted
	OCutSnapshot = "cut-snapshot"   // a snapshot file (MinTXID 1, which may replace anything) that ends early
	OBadSnapshot = "bad-snapshot"   // a snapshot file with one byte of its page block flipped
)

type Offer struct {
	Route  string `json:"route"` // "stream" (to the replica) or "tx" (forwarding endpoint of the primary)
	Kind   string `json:"kind"`
	D      int    `json:"d"`      // distance for gap / repeat
	At     int    `json:"at"`     // byte selector for corruptions
	Pages  int    `json:"pages"`  // pages in the offered file (>= 1; page 1 always)
	Before bool   `json:"before"` // a real transaction on the primary right before the offer
}

type RejectPlan struct {
	PageSize uint32        `json:"page_size"`
	Mode     string        `json:"mode"`
	Setup    []pager.WalTx `json:"setup"`
	Offers   []Offer       `json:"offers"`
	Extra    []pager.WalTx `json:"extra"`
}

func genRejectPlan(t *rapid.T) RejectPlan {
	p := RejectPlan{
		PageSize: rapid.SampledFrom([]uint32{512, 1024, 4096}).Draw(t, "page_size"),
		Mode:     rapid.SampledFrom([]string{pager.Delete, pager.Persist, pager.WAL}).Draw(t, "mode"),
	}
	ns := rapid.IntRange(1, 4).Draw(t, "nsetup")
	no := rapid.IntRange(1, 6).Draw(t, "noffers")
	txs := gen.Txs(t, ns+no+1, 40)
	mk := func(tx pager.Tx) pager.WalTx {
		w := pager.WalTx{Tx: tx}
		w.Rollback, w.NoWrite = false, false
		return w
	}
	for i := 0; i < ns; i++ {
		p.Setup = append(p.Setup, mk(txs[i]))
	}
	kinds := []string{OGood, OGoodRange, OOverlap, OOverlap, OCutSnapshot, OCutSnapshot, OBadSnapshot, OGap, OGap, ORepeat, ORepeat, OPreChecksum, OPreChecksum, OBothWrong, OCorruptPage, OCorruptPage, OCorruptTail, OTruncated, OGarbageHdr}
	for i := 0; i < no; i++ {
		p.Offers = append(p.Offers, Offer{
			Route:  rapid.SampledFrom([]string{"stream", "tx"}).Draw(t, "route"),
			Kind:   rapid.SampledFrom(kinds).Draw(t, "kind"),
			D:      rapid.IntRange(1, 3).Draw(t, "d"),
			At:     rapid.IntRange(0, 1<<20).Draw(t, "at"),
			Pages:  rapid.IntRange(1, 4).Draw(t, "pages"),
			Before: rapid.Bool().Draw(t, "before"),
		})
		p.Extra = append(p.Extra, mk(txs[ns+i]))
	}
	p.Extra = append(p.Extra, mk(txs[ns+no]))
	return p
}

// buildOffer crafts the file. It returns the bytes, whether the node must accept
// it, and (for accepted files) the resulting image.
func buildOffer(o Offer, img *ref.Image, pos ref.Pos, foreign uint64) (file []byte, accept bool, next *ref.Image, kind string) {
	kind = o.Kind
	minTXID, pre := pos.TXID+1, pos.Checksum
	maxTXID := uint64(0)
	switch o.Kind {
	case OOverlap:
		if pos.TXID < uint64(o.D)+1 {
			minTXID, kind = pos.TXID+1+uint64(o.D), OGap
		} else {
			minTXID, maxTXID = pos.TXID-uint64(o.D)+1, pos.TXID+1
		}
	case OGoodRange:
		maxTXID = pos.TXID + 1 + uint64(o.D)
	case OCutSnapshot, OBadSnapshot:
		minTXID, maxTXID, pre = 1, pos.TXID+1, 0
	case OGap:
		minTXID = pos.TXID + 1 + uint64(o.D)
	case ORepeat:
		if pos.TXID < uint64(o.D)+1 { // would be TXID 1: a snapshot, which is always legal
			minTXID, kind = pos.TXID+1+uint64(o.D), OGap
		} else {
			minTXID = pos.TXID - uint64(o.D) + 1
		}
	case OPreChecksum:
		pre = foreign
	case OBothWrong:
		minTXID, pre = pos.TXID+1+uint64(o.D), foreign
	}
	if maxTXID == 0 {
		maxTXID = minTXID
	}
	next = img.Clone()
	hdr := append([]byte(nil), img.Page(1)...)
	hdr[27]++ // the change counter moves: page 1 differs from the committed one
	next.Set(1, hdr)
	pgnos := []uint32{1}
	lock := ref.LockPgno(img.PageSize)
	if minTXID == 1 { // a snapshot carries every page
		for pg := uint32(2); pg <= img.N(); pg++ {
			if pg != lock {
				pgnos = append(pgnos, pg)
			}
		}
	}
	for k := 1; k < o.Pages && minTXID != 1; k++ {
		pg := uint32(1 + k)
		if pg > img.N() || pg == lock {
			break
		}
		data := append([]byte(nil), img.Page(pg)...)
		// (not the same byte in every page: the database checksum is an XOR of per-page
		// CRCs, so identical deltas at identical offsets cancel in pairs)
		data[len(data)-1-int(pg)] ^= 0x5a
		next.Set(pg, data)
		pgnos = append(pgnos, pg)
	}
	var buf bytes.Buffer
	enc := ltx.NewEncoder(&buf)
	_ = enc.EncodeHeader(ltx.Header{Version: 1, PageSize: img.PageSize, Commit: next.N(), MinTXID: ltx.TXID(minTXID), MaxTXID: ltx.TXID(maxTXID), Timestamp: 1, PreApplyChecksum: ltx.Checksum(pre), NodeID: 0xbad})
	for _, pg := range pgnos {
		_ = enc.EncodePage(ltx.PageHeader{Pgno: pg}, next.Page(pg))
	}
	enc.SetPostApplyChecksum(ltx.Checksum(next.Checksum()))
	if err := enc.Close(); err != nil {
		panic(err)
	}
	file = buf.Bytes()
	body := len(file) - ltx.HeaderSize - ltx.TrailerSize
	switch o.Kind {
	case OCutSnapshot:
		file = file[:ltx.HeaderSize+o.At%(body+ltx.TrailerSize)]
	case OBadSnapshot:
		file[ltx.HeaderSize+ltx.PageHeaderSize+o.At%(int(img.PageSize))] ^= 0x01
	case OCorruptPage:
		// a byte of page data (past the 4-byte page header of the first page)
		i := ltx.HeaderSize + ltx.PageHeaderSize + o.At%(int(img.PageSize))
		file[i] ^= 0x01
	case OCorruptTail:
		file[len(file)-1-o.At%ltx.TrailerSize] ^= 0x80
	case OTruncated:
		file = file[:ltx.HeaderSize+o.At%(body+ltx.TrailerSize)]
	case OGarbageHdr:
		for i := 0; i < ltx.HeaderSize; i++ {
			file[i] = byte(o.At + i*7)
		}
		if string(file[:4]) == "LTX1" {
			file[0] = 'X'
		}
	}
	return file, kind == OGood || kind == OGoodRange, next, kind
}

// dirState captures everything an offer could have modified on a node.
type dirState struct {
	pos   ref.Pos
	db    []byte
	wal   []byte
	ltx   string
	image *ref.Image
}

func capture(c *pbt.Case, n *cluster.CNode, ps uint32, raw bool) dirState {
	var st dirState
	if raw {
		// While a halt lock is granted the primary's own readers are locked out, so
		// the state is taken from the files (the halt checkpointed the WAL).
		st.pos = n.Pos(dbName)
		b, _ := os.ReadFile(n.DBDir(dbName) + "/database")
		st.image = ref.ImageFromBytes(ps, b)
	} else {
		var res cluster.ReadResult
		var err error
		for try := 0; try < 5000; try++ {
			if res, err = n.Read(dbName); err != pager.ErrBusy {
				break
			}
			time.Sleep(time.Millisecond)
		}
		if err != nil {
			c.Failf("C06/read-error", "node %s: %v", n.Name, err)
		}
		st.pos, st.image = res.Pos, res.Image
		if st.image == nil {
			st.image = ref.NewImage(ps)
		}
	}
	st.db, _ = os.ReadFile(n.DBDir(dbName) + "/database")
	st.wal, _ = os.ReadFile(n.DBDir(dbName) + "/wal")
	ents, _ := os.ReadDir(n.LTXDir(dbName))
	var names []string
	for _, e := range ents {
		if strings.HasSuffix(e.Name(), ".ltx") {
			names = append(names, e.Name())
		}
	}
	sort.Strings(names)
	st.ltx = strings.Join(names, ",")
	return st
}

func streamBody(name string, file []byte) []byte {
	var buf bytes.Buffer
	_ = litefs.WriteStreamFrame(&buf, &litefs.LTXStreamFrame{Name: name})
	cw := chunk.NewWriter(&buf)
	_, _ = cw.Write(file)
	_ = cw.Close()
	_ = litefs.WriteStreamFrame(&buf, &litefs.ReadyStreamFrame{})
	return buf.Bytes()
}

func runRejectPlan(c *pbt.Case, p RejectPlan) {
	cl := cluster.New(c.TempDir(), 50*time.Millisecond)
	c.Cleanup(cl.Close)
	cl.DBs[dbName] = &cluster.DBConfig{Name: dbName, PageSize: p.PageSize, JournalMode: p.Mode, Sync: pager.SyncOff, Sector: 512}
	pr, err := cl.AddNode("p", cluster.NodeOpts{Candidate: true})
	if err != nil {
		c.Failf("C06/setup", "%v", err)
	}
	if err := cl.WaitPrimary(pr, 10*time.Second); err != nil {
		c.Failf("C06/setup", "%v", err)
	}
	rp, err := cl.AddNode("r", cluster.NodeOpts{})
	if err != nil {
		c.Failf("C06/setup", "%v", err)
	}
	pr.Supervise, rp.Supervise = true, true
	c.Labelf("mode:%s", p.Mode)
	write := func(tx pager.WalTx, what string) {
		wr, err := pr.Write(dbName, tx)
		if err != nil {
			c.Failf("C06/harness", "%v", err)
		}
		if wr.Err != nil {
			c.Failf("C06/op-error", "%s: a valid transaction on the primary was refused: %v", what, wr.Err)
		}
		pr.CloseConns()
	}
	converge := func(what string) {
		if err := cl.WaitConverged(20 * time.Second); err != nil {
			c.Failf("C06/liveness/no-convergence", "%s: %v", what, err)
		}
	}
	for i, tx := range p.Setup {
		write(tx, fmt.Sprintf("setup %d", i))
	}
	converge("setup")
	client := lhttp.NewClient()
	const fakeNode = 0xbad
	lockID := int64(1000)
	rejected, accepted := 0, 0

	for oi, o := range p.Offers {
		if o.Before {
			write(p.Extra[oi], fmt.Sprintf("offer %d: transaction before", oi))
			converge(fmt.Sprintf("offer %d: before", oi))
		}
		target := rp
		if o.Route == "tx" {
			target = pr
		}
		var hctx context.Context
		var hcancel context.CancelFunc
		if o.Route == "tx" {
			// the forwarding endpoint only listens to the holder of the halt lock; taking
			// the lock checkpoints the WAL, so the "before" state is captured afterwards
			lockID++
			hctx, hcancel = context.WithTimeout(context.Background(), 10*time.Second)
			c.Cleanup(hcancel)
			hl, err := client.AcquireHaltLock(hctx, pr.URL, fakeNode, dbName, lockID)
			if err != nil || hl == nil {
				hcancel()
				c.Failf("C06/harness", "offer %d: cannot take the halt lock: %v", oi, err)
			}
		}
		before := capture(c, target, p.PageSize, o.Route == "tx")
		img, ok := cl.Hist.Lookup(dbName, before.pos)
		if !ok {
			c.Failf("C06/harness", "offer %d: no reference image for %s", oi, before.pos)
		}
		foreign := (before.pos.Checksum ^ uint64(0x1234567+o.At)) | ref.ChecksumFlag
		if foreign == before.pos.Checksum {
			foreign ^= 1
		}
		file, accept, next, kind := buildOffer(o, img, before.pos, foreign)
		what := fmt.Sprintf("offer %d (%s via %s, %d bytes) to node %s at %s", oi, kind, o.Route, len(file), target.Name, before.pos)
		c.Notef("%s", what)
		c.Labelf("offer:%s:%s", o.Route, kind)

		var offerErr error
		if o.Route == "tx" {
			offerErr = client.Commit(hctx, pr.URL, fakeNode, dbName, lockID, bytes.NewReader(file))
		} else {
			rp.FC.Pause() // nothing else reaches the replica while the scripted primary talks
			n0 := rp.FC.InjectedCount()
			rp.FC.SetInject(streamBody(dbName, file), rp.Store.ClusterID())
			rp.FC.CutAll()
			rp.FC.Pause()
			deadline := time.Now().Add(10 * time.Second)
			for k := 1; rp.FC.InjectedCount() == n0; k++ {
				if time.Now().After(deadline) {
					c.Failf("C06/harness", "%s: the replica never consumed the scripted stream", what)
				}
				time.Sleep(200 * time.Microsecond)
				if k%100 == 0 {
					// a connection attempt that was already under way when the script was
					// armed produced a real stream after the cut: cut again
					rp.FC.CutAll()
					rp.FC.Pause()
				}
			}
		}
		// Store.Exit is process death; nothing below may be judged on a zombie.
		if ex := target.Exited(); len(ex) > 0 {
			restart := "the directory it left restarts cleanly"
			if _, err := cl.Supervise(); err != nil {
				restart = "and cannot be restarted: " + err.Error()
			} else if st := capture(c, target, p.PageSize, false); st.pos != before.pos || st.image.Diff(before.image) != "" {
				restart = fmt.Sprintf("after a restart it is at %s with %s", st.pos, st.image.Diff(before.image))
			}
			c.Failf("C06/rejected-file-killed-node", "%s: the node called Store.Exit(%v); %s", what, ex, restart)
		}
		after := capture(c, target, p.PageSize, o.Route == "tx")
		if accept {
			want := ref.Pos{TXID: before.pos.TXID + 1, Checksum: next.Checksum()}
			if kind == OGoodRange {
				want.TXID = before.pos.TXID + 1 + uint64(o.D)
			}
			if o.Route == "tx" && offerErr != nil {
				c.Failf("C06/good-file-refused", "%s: %v", what, offerErr)
			}
			if after.pos != want {
				c.Failf("C06/good-file-refused", "%s: position is %s afterwards, want %s", what, after.pos, want)
			}
			if d := after.image.Diff(next); d != "" {
				c.Failf("C06/good-file-misapplied", "%s: %s", what, d)
			}
			if err := cl.Hist.Record(dbName, want, next); err != nil {
				c.Failf("C06/harness", "%s: %v", what, err)
			}
			accepted++
		} else {
			if o.Route == "tx" && offerErr == nil {
				c.Failf("C06/bad-file-acknowledged", "%s: POST /tx answered success", what)
			}
			if after.pos != before.pos {
				c.Failf("C06/bad-file-moved-position", "%s: position is %s afterwards", what, after.pos)
			}
			if d := after.image.Diff(before.image); d != "" {
				c.Failf("C06/bad-file-changed-database", "%s: %s", what, d)
			}
			if !bytes.Equal(after.db, before.db) || !bytes.Equal(after.wal, before.wal) {
				c.Failf("C06/bad-file-changed-database", "%s: the database or WAL file bytes changed (%d/%d -> %d/%d bytes)", what, len(before.db), len(before.wal), len(after.db), len(after.wal))
			}
			if after.ltx != before.ltx {
				c.Failf("C06/bad-file-kept", "%s: transaction files before: [%s] after: [%s]", what, before.ltx, after.ltx)
			}
			rejected++
		}
		if o.Route == "stream" {
			rp.FC.Resume()
		} else {
			_ = client.ReleaseHaltLock(hctx, pr.URL, fakeNode, dbName, lockID)
			hcancel()
		}
		// the cluster still replicates: the primary is authoritative again
		converge(what + ": afterwards")
		for _, n := range cl.Nodes {
			if ex := n.Exited(); len(ex) > 0 {
				c.Failf("C06/rejected-file-killed-node", "%s: node %s called Store.Exit(%v) afterwards", what, n.Name, ex)
			}
			st := capture(c, n, p.PageSize, false)
			ref, ok := cl.Hist.Lookup(dbName, st.pos)
			if !ok {
				c.Failf("C06/unknown-position", "%s: node %s is at %s afterwards", what, n.Name, st.pos)
			}
			if d := st.image.Diff(ref); d != "" {
				c.Failf("C06/not-identical", "%s: node %s at %s afterwards: %s", what, n.Name, st.pos, d)
			}
			if sig, msg := n.Monitors(dbName); sig != "" {
				c.Failf(sig, "%s: node %s afterwards: %s", what, n.Name, msg)
			}
		}
	}
	write(p.Extra[len(p.Extra)-1], "final")
	converge("final")
	c.Observe("rejected", int64(rejected))
	c.Observe("accepted", int64(accepted))
	if rejected > 0 {
		c.NonTrivial()
	}
}

var rejectProp = pbt.Prop[RejectPlan]{ID: "C06", Name: "reject", Gen: genRejectPlan, Run: runRejectPlan}

func TestProp_reject(t *testing.T) { rejectProp.Check(t) }
