// Package c06 decides property C06: divergent or stale replicas are
// resnapshotted, never patched; files that do not extend a node's exact
// position are rejected without changing it.
package c06

import (
	"context"
	"fmt"
	"os"
	"path/filepath"
	"testing"
	"time"

	"github.com/superfly/litefs/verif/cluster"
	"github.com/superfly/litefs/verif/gen"
	"github.com/superfly/litefs/verif/pager"
	"github.com/superfly/litefs/verif/pbt"
	"github.com/superfly/litefs/verif/ref"
	"github.com/superfly/ltx"
	"pgregory.net/rapid"
)

const dbName = "db.sqlite"

// Round is one partition-and-takeover cycle between the two candidates.
type Round struct {
	Common    []pager.WalTx `json:"common"`     // replicated everywhere before the partition
	AOnly     []pager.WalTx `json:"a_only"`     // committed by the primary while the other candidate is cut off
	BOnly     []pager.WalTx `json:"b_only"`     // committed by the new primary while the former one is cut off
	Expiry    bool          `json:"expiry"`     // takeover by lease expiry instead of demotion
	Retention bool          `json:"retention"`  // the new primary trims its log before the former one reconnects
	Restart   bool          `json:"restart"`    // the former primary restarts while cut off
	Ckpt      int           `json:"ckpt"`       // WAL: checkpoint kind on the new primary before reconnect, -1 none
	Join      bool          `json:"join"`       // an empty node joins after the fork
}

type Plan struct {
	PageSize uint32  `json:"page_size"`
	Mode     string  `json:"mode"`
	Compress bool    `json:"lz4"`
	Third    bool    `json:"third"` // a plain replica that stays connected to whoever is primary
	Rounds   []Round `json:"rounds"`
	Final    pager.WalTx `json:"final"`
}

func genPlan(t *rapid.T) Plan {
	p := Plan{
		PageSize: rapid.SampledFrom([]uint32{512, 1024, 4096}).Draw(t, "page_size"),
		Mode:     rapid.SampledFrom([]string{pager.Delete, pager.Truncate, pager.Persist, pager.WAL, pager.WAL}).Draw(t, "mode"),
		Compress: rapid.Bool().Draw(t, "lz4"),
		Third:    rapid.Bool().Draw(t, "third"),
	}
	nr := rapid.IntRange(1, 3).Draw(t, "rounds")
	for r := 0; r < nr; r++ {
		rd := Round{
			Expiry:    rapid.Bool().Draw(t, "expiry"),
			Retention: rapid.IntRange(0, 3).Draw(t, "retention") == 0,
			Restart:   rapid.IntRange(0, 3).Draw(t, "restart") == 0,
			Ckpt:      rapid.IntRange(-1, 3).Draw(t, "ckpt"),
			Join:      rapid.IntRange(0, 3).Draw(t, "join") == 0,
		}
		nc := rapid.IntRange(0, 3).Draw(t, "ncommon")
		if r == 0 && nc == 0 {
			nc = 1
		}
		na := rapid.IntRange(0, 4).Draw(t, "na")
		nb := rapid.IntRange(0, 4).Draw(t, "nb")
		txs := gen.Txs(t, nc+na+nb, 300)
		mk := func(tx pager.Tx) pager.WalTx {
			w := pager.WalTx{Tx: tx}
			w.Rollback, w.NoWrite = false, false
			return w
		}
		for i := 0; i < nc; i++ {
			rd.Common = append(rd.Common, mk(txs[i]))
		}
		for i := 0; i < na; i++ {
			rd.AOnly = append(rd.AOnly, mk(txs[nc+i]))
		}
		for i := 0; i < nb; i++ {
			rd.BOnly = append(rd.BOnly, mk(txs[nc+na+i]))
		}
		p.Rounds = append(p.Rounds, rd)
	}
	p.Final = pager.WalTx{Tx: gen.Txs(t, 1, 300)[0]}
	p.Final.Rollback, p.Final.NoWrite = false, false
	return p
}

func haveFile(files []ref.LTXName, min, max uint64) bool {
	for _, f := range files {
		if f.Min == min && f.Max == max {
			return true
		}
	}
	return false
}

// lineage is the chain of positions of the current primary's history.
type lineage struct {
	chain []ref.Pos
}

func (l *lineage) has(p ref.Pos) bool {
	if p.TXID == 0 {
		return true
	}
	for _, q := range l.chain {
		if q == p {
			return true
		}
	}
	return false
}

func (l *lineage) cutAt(p ref.Pos) {
	if p.TXID == 0 {
		l.chain = nil
		return
	}
	for i, q := range l.chain {
		if q == p {
			l.chain = l.chain[:i+1]
			return
		}
	}
}

func runPlan(c *pbt.Case, p Plan) {
	cl := cluster.New(c.TempDir(), 50*time.Millisecond)
	c.Cleanup(cl.Close)
	cl.DBs[dbName] = &cluster.DBConfig{Name: dbName, PageSize: p.PageSize, JournalMode: p.Mode, Sync: pager.SyncOff, Sector: 512}
	a, err := cl.AddNode("a", cluster.NodeOpts{Candidate: true, Compress: p.Compress})
	if err != nil {
		c.Failf("C06/setup", "%v", err)
	}
	if err := cl.WaitPrimary(a, 10*time.Second); err != nil {
		c.Failf("C06/setup", "%v", err)
	}
	b, err := cl.AddNode("b", cluster.NodeOpts{Candidate: true, Compress: p.Compress})
	if err != nil {
		c.Failf("C06/setup", "%v", err)
	}
	if p.Third {
		if _, err := cl.AddNode("t", cluster.NodeOpts{Compress: p.Compress}); err != nil {
			c.Failf("C06/setup", "%v", err)
		}
	}
	c.Labelf("mode:%s", p.Mode)
	lin := &lineage{}
	cursor := map[*cluster.CNode]int{} // transcript events already judged, per node
	lastSnap := map[*cluster.CNode]uint64{} // MaxTXID of the last snapshot each node was sent

	write := func(n *cluster.CNode, tx pager.WalTx, what string) {
		wr, err := n.Write(dbName, tx)
		if err != nil {
			c.Failf("C06/harness", "%v", err)
		}
		if wr.Err != nil {
			c.Failf("C06/op-error", "%s: a valid transaction on primary %s was refused: %v", what, n.Name, wr.Err)
		}
		if wr.Committed && wr.Pos != wr.Prev {
			lin.chain = append(lin.chain, wr.Pos)
		}
	}

	// judgeTranscripts: on every stream, a file that is not a snapshot may only be
	// offered to a node whose announced position is on the serving primary's
	// history, and it must extend exactly that position.
	judgeTranscripts := func(when string) {
		time.Sleep(2 * time.Millisecond) // let the transcript parsers finish the last frame
		for _, n := range cl.Nodes {
			evs := n.FC.Transcript()
			var announced ref.Pos
			var last *ltx.Header
			stream := -1
			for i, e := range evs {
				if e.Connect != nil {
					stream, last = e.Stream, nil
					pos := e.Connect[dbName]
					announced = ref.Pos{TXID: uint64(pos.TXID), Checksum: uint64(pos.PostApplyChecksum)}
					continue
				}
				if e.Name != dbName || e.Err != "" || e.Stream != stream {
					continue
				}
				h := e.Hdr
				if i >= cursor[n] {
					c.Observe("offered-files", 1)
					if h.IsSnapshot() {
						lastSnap[n] = uint64(h.MaxTXID)
						c.Label("snapshot-offered")
						if !lin.has(announced) {
							c.Label("snapshot-to-divergent-node")
						}
					} else if last == nil {
						c.Label("incremental-offered")
						if !lin.has(announced) {
							c.Failf("C06/patched-divergent-node", "%s: node %s announced %s, which is not on the primary's history, and was offered the incremental file %s-%s (pre-apply checksum %s) instead of a snapshot", when, n.Name, announced, h.MinTXID, h.MaxTXID, h.PreApplyChecksum)
						}
						if uint64(h.MinTXID) != announced.TXID+1 || uint64(h.PreApplyChecksum) != announced.Checksum {
							c.Failf("C06/offered-non-extending-file", "%s: node %s announced %s and was offered %s-%s with pre-apply checksum %s", when, n.Name, announced, h.MinTXID, h.MaxTXID, h.PreApplyChecksum)
						}
					} else if h.MinTXID != last.MaxTXID+1 {
						c.Failf("C06/offered-non-extending-file", "%s: node %s was offered %s-%s right after %s-%s", when, n.Name, h.MinTXID, h.MaxTXID, last.MinTXID, last.MaxTXID)
					}
				}
				hh := h
				last = &hh
			}
			cursor[n] = len(evs)
		}
	}

	// judgeNodes: every running node is at the primary's position, shows the image
	// committed there and keeps no transaction file that is off the primary's history.
	judgeNodes := func(when string, pr *cluster.CNode) {
		want := pr.Pos(dbName)
		for _, n := range cl.Nodes {
			if !n.Up {
				continue
			}
			if ex := n.Exited(); len(ex) > 0 {
				c.Failf("C06/store-exit", "%s: node %s called Store.Exit(%v)", when, n.Name, ex)
			}
			var res cluster.ReadResult
			var err error
			var sig, msg string
			for try := 0; try < 2000; try++ {
				if res, err = n.ReadUnder(dbName, func() { sig, msg = n.Monitors(dbName) }); err != pager.ErrBusy {
					break
				}
				time.Sleep(time.Millisecond)
			}
			if err != nil {
				c.Failf("C06/read-error", "%s: node %s: %v (hot journal: %v)", when, n.Name, err, res.HotJournal)
			}
			if sig != "" {
				c.Failf(sig, "%s: node %s: %s", when, n.Name, msg)
			}
			if res.Pos != want {
				c.Failf("C06/not-at-primary-position", "%s: node %s is at %s, primary %s at %s", when, n.Name, res.Pos, pr.Name, want)
			}
			img, ok := cl.Hist.Lookup(dbName, want)
			if !ok {
				if want.TXID == 0 {
					continue
				}
				c.Failf("C06/harness", "%s: no reference image for %s", when, want)
			}
			got := res.Image
			if got == nil {
				got = ref.NewImage(p.PageSize)
			}
			if d := got.Diff(img); d != "" {
				c.Failf("C06/not-identical", "%s: node %s at %s differs from the primary's database there: %s", when, n.Name, want, d)
			}
			files, _, err := ref.ListLTXDir(n.LTXDir(dbName))
			if err != nil {
				c.Failf("C06/harness", "%v", err)
			}
			for _, f := range files {
				lf, err := ref.DecodeLTXFile(filepath.Join(n.LTXDir(dbName), f.Name))
				if err != nil {
					c.Failf("C06/bad-ltx-kept", "%s: node %s keeps %s which does not verify: %v", when, n.Name, f.Name, err)
				}
				// A received snapshot replaces the whole chain: nothing older than it may
				// survive next to it. (A node that reached a position of the primary's
				// history by its own route - two histories can meet again - legitimately
				// keeps the files of that route; the chain monitor above vouches for them.)
				// (only once the snapshot has really arrived: its file is in the directory)
				if s := lastSnap[n]; s > 0 && haveFile(files, 1, s) && uint64(lf.Header.MaxTXID) <= s && !(lf.Header.MinTXID == 1 && uint64(lf.Header.MaxTXID) == s) {
					c.Failf("C06/old-chain-kept-after-snapshot", "%s: node %s was sent a snapshot up to TXID %d and still keeps %s", when, n.Name, s, f.Name)
				}
			}
		}
	}

	cur, other := a, b
	joined := 0
	divergences := 0
	for ri, rd := range p.Rounds {
		tag := fmt.Sprintf("round %d", ri)
		for _, tx := range rd.Common {
			write(cur, tx, tag+" common")
		}
		if err := cl.WaitConverged(20 * time.Second); err != nil {
			c.Failf("C06/liveness/no-convergence", "%s: %v", tag, err)
		}
		judgeTranscripts(tag + " after the common prefix")
		judgeNodes(tag+" after the common prefix", cur)
		// A node that never reached a primary has no cluster ID and may not take the lease.
		for w := 0; w < 5000 && other.Store.ClusterID() == ""; w++ {
			time.Sleep(time.Millisecond)
		}

		// ---- partition: the other candidate sees nothing of what follows ----
		other.FC.Isolate()
		// whatever was already on its way has been applied by now: the fork point is
		// where the isolated candidate really stands
		time.Sleep(2 * time.Millisecond)
		fork := other.Pos(dbName)
		if !lin.has(fork) {
			c.Failf("C06/harness", "%s: the isolated candidate is at %s, which the primary never committed", tag, fork)
		}
		for _, tx := range rd.AOnly {
			write(cur, tx, tag+" unreplicated")
		}
		cur.CloseConns()
		if p.Third {
			// the plain replica follows the soon-to-be-former primary onto the fork
			deadline := time.Now().Add(20 * time.Second)
			for t := cl.Nodes[2]; t.Pos(dbName) != cur.Pos(dbName); {
				if time.Now().After(deadline) {
					c.Failf("C06/liveness/no-convergence", "%s: replica t did not follow primary %s", tag, cur.Name)
				}
				time.Sleep(200 * time.Microsecond)
			}
		}
		judgeTranscripts(tag + " before the takeover")
		formerPos := cur.Pos(dbName)

		// ---- takeover: the former primary cannot reach the new one yet ----
		cur.FC.Refuse(true)
		if got := other.Pos(dbName); got != fork {
			c.Failf("C06/harness", "%s: the isolated candidate moved from %s to %s", tag, fork, got)
		}
		if err := cl.MakePrimary(other, rd.Expiry, 20*time.Second); err != nil {
			c.Failf("C06/liveness/no-primary", "%s: %v", tag, err)
		}
		cur.FC.CutAll()
		former := cur
		cur, other = other, cur
		lin.cutAt(fork)
		if got := cur.Pos(dbName); got != fork {
			c.Failf("C06/harness", "%s: new primary %s is at %s, expected the fork point %s", tag, cur.Name, got, fork)
		}
		for _, tx := range rd.BOnly {
			write(cur, tx, tag+" new primary")
		}
		if p.Mode == pager.WAL && rd.Ckpt >= 0 {
			_, _ = cur.Checkpoint(dbName, rd.Ckpt)
		}
		cur.CloseConns()
		newPos := cur.Pos(dbName)
		switch {
		case formerPos == newPos:
			c.Label("relation:equal")
		case lin.has(formerPos):
			c.Label("relation:on-chain-behind")
		case formerPos.TXID > newPos.TXID:
			c.Label("relation:ahead")
			divergences++
		case formerPos.TXID == newPos.TXID:
			c.Label("relation:same-txid-other-checksum")
			divergences++
		default:
			c.Label("relation:fork-behind")
			divergences++
		}
		if rd.Retention {
			old := time.Now().Add(-time.Hour)
			ents, _ := os.ReadDir(cur.LTXDir(dbName))
			for _, e := range ents {
				_ = os.Chtimes(filepath.Join(cur.LTXDir(dbName), e.Name()), old, old)
			}
			keep := cur.Store.Retention
			cur.Store.Retention = time.Minute
			if err := cur.Store.EnforceRetention(context.Background()); err != nil {
				c.Failf("C06/retention-error", "%s: %v", tag, err)
			}
			cur.Store.Retention = keep // (also the default snapshot time-out)
			c.Label("retention-cut")
		}
		if rd.Restart {
			former.Stop()
			if err := former.Start(); err != nil {
				c.Failf("C06/restart-failed", "%s: former primary %s cannot reopen its directory: %v", tag, former.Name, err)
			}
			c.Label("former-primary-restarted")
		}
		if rd.Join && joined < 2 {
			joined++
			if _, err := cl.AddNode(fmt.Sprintf("j%d", joined), cluster.NodeOpts{Compress: p.Compress}); err != nil {
				c.Failf("C06/setup", "%v", err)
			}
			c.Label("empty-node-joins")
		}

		// ---- reconnect ----
		former.FC.Refuse(false)
		if err := cl.WaitConvergedConnected(20 * time.Second); err != nil {
			c.Failf("C06/liveness/no-convergence", "%s after reconnect: %v", tag, err)
		}
		judgeTranscripts(tag + " after reconnect")
		judgeNodes(tag+" after reconnect", cur)
	}
	// the cluster keeps working
	write(cur, p.Final, "final")
	if err := cl.WaitConvergedConnected(20 * time.Second); err != nil {
		c.Failf("C06/liveness/no-convergence", "final: %v", err)
	}
	judgeTranscripts("final")
	judgeNodes("final", cur)
	if divergences > 0 {
		c.NonTrivial()
	}
}

var resnapProp = pbt.Prop[Plan]{ID: "C06", Name: "resnapshot", Gen: genPlan, Run: runPlan}

func TestProp_resnapshot(t *testing.T) { resnapProp.Check(t) }

func TestReplay(t *testing.T) { pbt.Replay(t, resnapProp, rejectProp) }
