// Package c03 decides property C03: WAL-mode commits are captured exactly when
// the write lock is released.
package c03

import (
	"context"
	"testing"
	"time"

	"github.com/superfly/litefs/verif/gen"
	"github.com/superfly/litefs/verif/node"
	"github.com/superfly/litefs/verif/oracle"
	"github.com/superfly/litefs/verif/pager"
	"github.com/superfly/litefs/verif/pbt"
	"pgregory.net/rapid"
)

// Step kinds.
const (
	StepTx      = "tx"
	StepCkpt    = "ckpt"
	StepRecover = "litefs-recover"
	StepReopen  = "reopen"
	StepRdBegin = "reader-begin"
	StepRdEnd   = "reader-end"
	StepSwitch  = "journal-mode-round-trip" // PRAGMA journal_mode=DELETE, one rollback-journal transaction, PRAGMA journal_mode=WAL
)

type Step struct {
	Kind string      `json:"k"`
	Tx   pager.WalTx `json:"tx,omitempty"`
	Ckpt int         `json:"ckpt,omitempty"`
}

type Plan struct {
	PageSize uint32   `json:"page_size"`
	Sync     string   `json:"sync"`
	Compress bool     `json:"lz4"`
	First    pager.Tx `json:"first"` // the rollback-mode transaction that creates the database in WAL format
	Steps    []Step   `json:"steps"`
}

func genPlan(t *rapid.T) Plan {
	p := Plan{
		PageSize: rapid.SampledFrom([]uint32{512, 512, 512, 1024, 4096, 65536}).Draw(t, "page_size"),
		Sync:     rapid.SampledFrom([]string{pager.SyncFull, pager.SyncNormal, pager.SyncOff}).Draw(t, "sync"),
		Compress: rapid.Bool().Draw(t, "lz4"),
	}
	maxPages := uint32(600)
	if p.PageSize >= 8192 {
		maxPages = 40
	}
	n := rapid.IntRange(1, 30).Draw(t, "nsteps")
	txs := gen.Txs(t, n+1, maxPages)
	p.First = txs[0]
	p.First.Rollback, p.First.NoWrite, p.First.SpillAfter = false, false, 0
	if p.First.NewSize == 0 {
		p.First.NewSize = 1
	}
	for i := 0; i < n; i++ {
		k := rapid.IntRange(0, 19).Draw(t, "kind")
		switch {
		case k < 12:
			wt := pager.WalTx{Tx: txs[i+1]}
			wt.SpillAfter = 0
			if rapid.IntRange(0, 3).Draw(t, "spill?") == 0 {
				wt.SpillFrames = rapid.IntRange(1, 5).Draw(t, "spillframes")
			}
			if rapid.IntRange(0, 3).Draw(t, "repeat?") == 0 {
				wt.Repeat = rapid.IntRange(1, 3).Draw(t, "repeat")
			}
			if wt.NoWrite && rapid.Bool().Draw(t, "tail?") {
				wt.Tail = rapid.IntRange(1, 3).Draw(t, "tail")
				wt.NewSize = 1
			}
			wt.BEChecksum = rapid.Bool().Draw(t, "be")
			p.Steps = append(p.Steps, Step{Kind: StepTx, Tx: wt})
		case k < 16:
			p.Steps = append(p.Steps, Step{Kind: StepCkpt, Ckpt: rapid.IntRange(0, 3).Draw(t, "ckpt")})
		case k == 16:
			p.Steps = append(p.Steps, Step{Kind: StepRecover})
		case k == 17:
			p.Steps = append(p.Steps, Step{Kind: StepReopen})
		case k == 18 && rapid.Bool().Draw(t, "switch"):
			p.Steps = append(p.Steps, Step{Kind: StepSwitch, Tx: pager.WalTx{Tx: txs[i+1]}})
		case k == 18:
			p.Steps = append(p.Steps, Step{Kind: StepRdBegin})
		default:
			p.Steps = append(p.Steps, Step{Kind: StepRdEnd})
		}
	}
	return p
}

func runPlan(c *pbt.Case, p Plan) {
	dir := c.TempDir()
	n, err := node.NewPrimary(dir, node.Options{Compress: p.Compress})
	if err != nil {
		c.Failf("C03/setup", "open primary: %v", err)
	}
	c.Cleanup(func() { _ = n.Close() })

	const name = "db"
	model := pager.NewDBModel(name, p.PageSize)
	newConn := func(owner uint64) *pager.Conn {
		cn := pager.NewConn(n.M, model, owner)
		cn.JournalMode, cn.Sync = pager.WAL, p.Sync
		return cn
	}
	owner := uint64(100)
	conn := newConn(owner)
	reader := newConn(9000) // used by the oracle, never holds a lock between steps
	holder := newConn(8000) // a second application connection that may sit on a read lock
	holding := false
	defer func() { conn.Close(); reader.Close(); holder.Close() }()

	c.Labelf("pagesize:%d", p.PageSize)

	check := func(i int, what string) {
		if ex := n.Exits(); len(ex) > 0 {
			c.Failf("C03/store-exit", "step %d (%s): Store.Exit(%v) called on a valid program", i, what, ex)
		}
		got, err := reader.ReadImageWAL()
		if err == pager.ErrBusy {
			return
		} else if err != nil {
			c.Failf("C03/read-error", "step %d (%s): reading the database through the mount: %v", i, what, err)
		}
		if d := got.Diff(model.Img); d != "" {
			c.Failf("C03/image-through-mount", "step %d (%s) at %s: image through the mount != image SQLite wrote: %s", i, what, n.Pos(name), d)
		}
		pos := n.Pos(name)
		if model.Img.N() > 0 && pos.Checksum != model.Img.Checksum() {
			c.Failf("C03/position-checksum", "step %d (%s): position checksum %016x, image checksum %016x", i, what, pos.Checksum, model.Img.Checksum())
		}
		if sig, msg := n.Monitors(name); sig != "" {
			c.Failf(sig, "step %d (%s): %s", i, what, msg)
		}
	}

	// Create the database in WAL format (PRAGMA journal_mode=WAL on a new file).
	prev := n.Pos(name)
	prevImg := model.Img.Clone()
	if res, err := conn.SwitchToWAL(p.First); err != nil || !res.Committed {
		c.Failf("C03/op-error", "creating the database: committed=%v err=%v", res.Committed, err)
	}
	if pos := n.Pos(name); pos.TXID != prev.TXID+1 {
		c.Failf("C03/commit-not-captured", "creating transaction: position %s -> %s", prev, pos)
	} else if sig, msg := oracle.CheckLTX(n.LTXDir(name), prev, pos, prevImg, model.Img); sig != "" {
		c.Failf("C03/"+sig, "creating transaction: %s", msg)
	}
	check(-1, "create")

	nontrivial := false
	rolledBackPending := false // a rolled-back transaction left frames that the next writer overwrites
	for i, st := range p.Steps {
		switch st.Kind {
		case StepTx:
			prev := n.Pos(name)
			prevImg := model.Img.Clone()
			res, err := conn.ExecWALTx(st.Tx)
			c.Notef("step %d tx %+v -> committed=%v rb=%v frames=%d restarted=%v hdr=%v err=%v pos=%s", i, st.Tx, res.Committed, res.RolledBack, res.Frames, res.Restarted, res.WroteHeader, err, n.Pos(name))
			if err == pager.ErrBusy {
				c.Label("busy")
				continue
			}
			if err != nil {
				c.Failf("C03/op-error", "step %d: a valid WAL program was refused: %v", i, err)
			}
			pos := n.Pos(name)
			if res.Committed {
				if pos.TXID != prev.TXID+1 {
					c.Failf("C03/commit-not-captured", "step %d: a committed transaction was appended but the position went %s -> %s", i, prev, pos)
				}
				if sig, msg := oracle.CheckLTX(n.LTXDir(name), prev, pos, prevImg, model.Img); sig != "" {
					c.Failf("C03/"+sig, "step %d (%s -> %s): %s", i, prev, pos, msg)
				}
				c.Label("commit")
				if rolledBackPending && res.Frames > 0 {
					c.Label("rollback-then-overwrite")
					nontrivial = true
				}
				rolledBackPending = false
				if model.Img.N() != prevImg.N() {
					c.Label("size-change")
					nontrivial = true
					if model.Img.N() < prevImg.N() && (model.Img.N()-1)/256 != (prevImg.N()-1)/256 {
						c.Label("shrink-across-block")
					}
				}
				if st.Tx.Repeat > 0 {
					c.Label("repeated-page")
					nontrivial = true
				}
			} else {
				if pos != prev {
					c.Failf("C03/captured-without-commit", "step %d: no committed transaction was appended (rollback=%v nowrite=%v) but the position went %s -> %s", i, res.RolledBack, st.Tx.NoWrite, prev, pos)
				}
				if res.Frames > 0 {
					rolledBackPending = true
					c.Label("uncommitted-frames")
				}
			}
			if res.Restarted {
				c.Label("restart")
				nontrivial = true
			}
			check(i, "tx")
		case StepCkpt:
			prev := n.Pos(name)
			res, err := conn.Checkpoint(st.Ckpt)
			c.Notef("step %d ckpt %d -> %+v err=%v", i, st.Ckpt, res, err)
			if err != nil {
				c.Failf("C03/op-error", "step %d: checkpoint(%d) refused: %v", i, st.Ckpt, err)
			}
			if pos := n.Pos(name); pos != prev {
				c.Failf("C03/checkpoint-moved-position", "step %d: checkpoint moved the position %s -> %s", i, prev, pos)
			}
			if res.Backfilled > 0 {
				c.Labelf("ckpt-%d", st.Ckpt)
				if !res.Complete {
					c.Label("partial-ckpt")
				}
			}
			if res.Reset {
				c.Label("ckpt-reset")
			}
			check(i, "ckpt")
		case StepRecover:
			prev := n.Pos(name)
			ctx, cancel := context.WithTimeout(context.Background(), 50*time.Millisecond)
			err := n.Store.DB(name).Recover(ctx)
			cancel()
			c.Notef("step %d litefs recover err=%v", i, err)
			if err == nil {
				c.Label("litefs-recover")
			} else {
				c.Label("litefs-recover-blocked")
			}
			if pos := n.Pos(name); pos != prev {
				c.Failf("C03/recover-moved-position", "step %d: LiteFS recover moved the position %s -> %s", i, prev, pos)
			}
			check(i, "litefs-recover")
		case StepSwitch:
			if holding {
				holder.EndRead()
				holding = false
			}
			holder.Close()
			reader.Close()
			for round, mode := range []string{"rollback", "wal"} {
				prev := n.Pos(name)
				prevImg := model.Img.Clone()
				var res pager.TxResult
				var err error
				if round == 0 {
					res, err = conn.SwitchToRollback(st.Tx.Tx)
				} else {
					t := st.Tx.Tx
					t.Rollback, t.NoWrite, t.SpillAfter = false, false, 0
					res, err = conn.SwitchToWAL(t)
				}
				c.Notef("step %d switch to %s -> committed=%v err=%v pos=%s", i, mode, res.Committed, err, n.Pos(name))
				if err == pager.ErrBusy {
					c.Label("busy")
					break
				}
				if err != nil {
					c.Failf("C03/op-error", "step %d: switching the journal mode to %s was refused: %v", i, mode, err)
				}
				pos := n.Pos(name)
				if !res.Committed || pos.TXID != prev.TXID+1 {
					c.Failf("C03/commit-not-captured", "step %d: the journal_mode=%s transaction committed=%v, position %s -> %s", i, mode, res.Committed, prev, pos)
				}
				if sig, msg := oracle.CheckLTX(n.LTXDir(name), prev, pos, prevImg, model.Img); sig != "" {
					c.Failf("C03/"+sig, "step %d (journal_mode=%s, %s -> %s): %s", i, mode, prev, pos, msg)
				}
				c.Label("journal-mode-switch")
				nontrivial = true
				if round == 0 {
					// the image is now read the rollback way
					r := pager.NewConn(n.M, model, 9100)
					got, err := r.ReadImage()
					r.Close()
					if err != nil {
						c.Failf("C03/read-error", "step %d: %v", i, err)
					}
					if d := got.Diff(model.Img); d != "" {
						c.Failf("C03/image-through-mount", "step %d after journal_mode=DELETE: %s", i, d)
					}
					if sig, msg := n.Monitors(name); sig != "" {
						c.Failf(sig, "step %d after journal_mode=DELETE: %s", i, msg)
					}
				}
			}
			check(i, "journal-mode-switch")
		case StepReopen:
			conn.Close()
			owner++
			conn = newConn(owner)
		case StepRdBegin:
			if !holding {
				if err := holder.OpenWAL(); err == nil {
					if err := holder.BeginRead(); err == nil {
						holding = true
						c.Label("reader-held")
					}
				}
			}
		case StepRdEnd:
			if holding {
				holder.EndRead()
				holding = false
			}
		}
	}
	if nontrivial {
		c.NonTrivial()
	}
}

var walProp = pbt.Prop[Plan]{ID: "C03", Name: "wal", Gen: genPlan, Run: runPlan}

func TestProp_wal(t *testing.T) { walProp.Check(t) }

func TestReplay(t *testing.T) { pbt.Replay(t, walProp, sqliteProp) }
