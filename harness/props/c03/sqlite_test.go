package c03

import (
	"testing"

	"github.com/superfly/litefs/verif/pbt"
	"github.com/superfly/litefs/verif/sqlwork"
	"pgregory.net/rapid"
)

// real SQLite (the go-sqlite3 amalgamation) on the same handler interface
var sqliteProp = pbt.Prop[sqlwork.Plan]{ID: "C03", Name: "sqlite",
	Gen: func(t *rapid.T) sqlwork.Plan { return sqlwork.Gen(t, []string{"WAL"}) },
	Run: func(c *pbt.Case, p sqlwork.Plan) { sqlwork.Run(c, p, "C03") }}

func TestProp_sqlite(t *testing.T) { sqliteProp.Check(t) }
