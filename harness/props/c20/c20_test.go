// Package c20 decides property C20: every request to a node's HTTP API gets a
// response without crashing, panicking inside or wedging the node, and invalid
// requests change nothing.
package c20

import (
	"strconv"
	"bytes"
	"context"
	"crypto/sha256"
	"crypto/tls"
	"encoding/binary"
	"fmt"
	"io"
	"log"
	"net"
	"net/http"
	"net/url"
	"path/filepath"
	"sort"
	"strings"
	"sync"
	"testing"
	"time"

	"github.com/superfly/litefs"
	lhttp "github.com/superfly/litefs/http"
	"github.com/superfly/litefs/verif/cluster"
	"github.com/superfly/litefs/verif/gen"
	"github.com/superfly/litefs/verif/pager"
	"github.com/superfly/litefs/verif/pbt"
	"github.com/superfly/litefs/verif/ref"
	"github.com/superfly/ltx"
	"golang.org/x/net/http2"
	"pgregory.net/rapid"
)

// ---- captured server log ------------------------------------------------------------------

type logBuf struct {
	mu sync.Mutex
	b  bytes.Buffer
}

func (l *logBuf) Write(p []byte) (int, error) {
	l.mu.Lock()
	defer l.mu.Unlock()
	if l.b.Len() < 4<<20 {
		l.b.Write(p)
	}
	return len(p), nil
}

func (l *logBuf) take() string {
	l.mu.Lock()
	defer l.mu.Unlock()
	s := l.b.String()
	l.b.Reset()
	return s
}

var serverLog = &logBuf{}

func init() { log.SetOutput(serverLog) }

// ---- plan ---------------------------------------------------------------------------------------

var endpoints = []string{"/stream", "/tx", "/halt", "/handoff", "/promote", "/import", "/export", "/info", "/events", "/nope", "/", "/debug/vars", "/metrics"}
var methods = []string{"GET", "POST", "DELETE", "PUT", "HEAD", "PATCH", "OPTIONS"}

// Parameter variants.
const (
	PMissing = iota
	PEmpty
	PUnknown   // a well-formed value that names nothing that exists
	PMalformed // not parseable as what the endpoint expects
	PValid
)

const foreignNodeID = 0xCAFEBABE

// Header variants for Litefs-Id.
const (
	HAbsent = iota
	HOwn
	HForeign
	HMalformed
)

// Body variants.
const (
	BEmpty = iota
	BTruncated
	BGarbage
	BOversized
	BValid
	BHostileLen
	BNotContiguous // /tx only: a well-formed LTX file that does not extend the database's position
	BExtends       // /tx only: a well-formed LTX file that extends the database's position exactly
	BCutSnapshot   // /tx only: a snapshot file (MinTXID 1) that ends early
)

type Req struct {
	Node     int    `json:"node"` // 0 primary, 1 replica, 2 node that knows no primary
	Endpoint string `json:"endpoint"`
	Method   string `json:"method"`
	Name     int    `json:"name"`
	ID       int    `json:"id"`
	NodeID   int    `json:"node_id"`
	Header   int    `json:"header"`
	Body     int    `json:"body"`
	H2       bool   `json:"h2"`
	Extra    bool   `json:"extra"` // add an unrelated query parameter
}

type Plan struct {
	Reqs []Req `json:"reqs"`
	// Hold: a (foreign) node holds the halt lock with the id the generated requests use
	// by default, on both databases of the primary, so that POST /tx comes from the
	// rightful holder and only the body can be wrong.
	Hold bool `json:"hold,omitempty"`
}

// the endpoints that can change a database are asked more often
var weightedEndpoints = append(append([]string{"/tx", "/tx", "/tx", "/tx", "/halt", "/halt", "/halt", "/import", "/import"}, endpoints...), "/tx", "/halt")

func genPlan(t *rapid.T) Plan {
	n := rapid.IntRange(1, 20).Draw(t, "n")
	var p Plan
	p.Hold = rapid.IntRange(0, 3).Draw(t, "hold") == 0
	for i := 0; i < n; i++ {
		r := Req{
			Node:     rapid.IntRange(0, 2).Draw(t, "node"),
			Endpoint: rapid.SampledFrom(weightedEndpoints).Draw(t, "endpoint"),
			Name:     rapid.SampledFrom([]int{0, 1, 2, 3, 4, 4, 4, 4}).Draw(t, "name"),
			ID:       rapid.IntRange(0, 4).Draw(t, "id"),
			NodeID:   rapid.IntRange(0, 4).Draw(t, "nodeid"),
			Header:   rapid.IntRange(0, 3).Draw(t, "hdr"),
			Body:     rapid.IntRange(0, 8).Draw(t, "body"),
			H2:       rapid.Bool().Draw(t, "h2"),
			Extra:    rapid.IntRange(0, 5).Draw(t, "extra") == 0,
		}
		if rapid.IntRange(0, 2).Draw(t, "rightmethod") > 0 {
			switch r.Endpoint {
			case "/export", "/info", "/events", "/debug/vars", "/metrics", "/", "/nope":
				r.Method = "GET"
			case "/halt":
				r.Method = rapid.SampledFrom([]string{"POST", "DELETE"}).Draw(t, "haltmethod")
			default:
				r.Method = "POST"
			}
		} else {
			r.Method = rapid.SampledFrom(methods).Draw(t, "method")
		}
		p.Reqs = append(p.Reqs, r)
	}
	return p
}

// ---- observable state (reading rule 7) ------------------------------------------------------------

// noLocks: leave the lock table out (a halt lock held for the whole plan is released by
// valid requests of the plan itself, asynchronously to their answers)
func nodeState(n *cluster.CNode, noLocks ...bool) string {
	var sb strings.Builder
	all, _ := n.M.ReadDir()
	var names []string
	for _, nm := range all {
		if nm != ".primary" && nm != ".lag" { // connectivity indicators, not databases
			names = append(names, nm)
		}
	}
	// (whether the node id this harness sends as "another node" counts as a connected replica)
	fmt.Fprintf(&sb, "dir=%v primary=%v foreign-subscribed=%v\n", names, n.Store.IsPrimary(), n.Store.SubscriberByNodeID(foreignNodeID) != nil)
	dbs := n.Store.DBs()
	sort.Slice(dbs, func(i, j int) bool { return dbs[i].Name() < dbs[j].Name() })
	for _, db := range dbs {
		if db.PageN() == 0 {
			continue // zero-length databases are not listed through the mount (reading rule 7)
		}
		img, err := ref.LogicalImage(db.Path())
		sum := "?"
		if err == nil {
			h := sha256.Sum256(img.Bytes())
			sum = fmt.Sprintf("%x/%d", h[:6], img.N())
		}
		// the transaction log = the files that are transaction files (temporary files are not, C09)
		var files []string
		if lf, _, err := ref.ListLTXDir(db.LTXDir()); err == nil {
			for _, e := range lf {
				files = append(files, e.Name)
			}
		}
		fmt.Fprintf(&sb, "db %q pos=%s image=%s ltx=%v remoteHalt=%v locks=", db.Name(), db.Pos(), sum, files, db.HasRemoteHaltLock())
		for _, lt := range litefs.VerifLockTypes {
			if len(noLocks) > 0 && noLocks[0] {
				break
			}
			h := db.VerifLockHolder(lt)
			fmt.Fprintf(&sb, "%d:%d/%d ", int(lt)%1000, int(h.State), h.SharedN)
		}
		sb.WriteString("\n")
	}
	return sb.String()
}

// ---- the cluster under test -------------------------------------------------------------------------

type world struct {
	cl, lone *cluster.Cluster
	nodes    [3]*cluster.CNode
	h1, h2   *http.Client
	hold     bool
}

const (
	dbA = "a.db" // rollback journal
	dbW = "w.db" // WAL
)

func setup(c *pbt.Case) *world {
	w := &world{}
	base := c.TempDir()
	w.cl = cluster.New(filepath.Join(base, "c"), 50*time.Millisecond)
	c.Cleanup(w.cl.Close)
	w.cl.DBs[dbA] = &cluster.DBConfig{Name: dbA, PageSize: 512, JournalMode: pager.Delete, Sync: pager.SyncOff, Sector: 512}
	w.cl.DBs[dbW] = &cluster.DBConfig{Name: dbW, PageSize: 1024, JournalMode: pager.WAL, Sync: pager.SyncOff, Sector: 512}
	var err error
	if w.nodes[0], err = w.cl.AddNode("p", cluster.NodeOpts{Candidate: true}); err != nil {
		c.Failf("C20/setup", "%v", err)
	}
	if err := w.cl.WaitPrimary(w.nodes[0], 10*time.Second); err != nil {
		c.Failf("C20/setup", "%v", err)
	}
	if w.nodes[1], err = w.cl.AddNode("r", cluster.NodeOpts{Candidate: true}); err != nil {
		c.Failf("C20/setup", "%v", err)
	}
	for i := 0; i < 2; i++ {
		for _, name := range []string{dbA, dbW} {
			tx := pager.WalTx{Tx: pager.Tx{NewSize: 4, Fill: byte(10 + i), Writes: []pager.Write{{Pgno: 2, Ver: uint32(i + 1)}}}}
			if wr, err := w.nodes[0].Write(name, tx); err != nil || wr.Err != nil {
				c.Failf("C20/setup", "write %s: %v %v", name, err, wr.Err)
			}
		}
	}
	w.nodes[0].CloseConns()
	if err := w.cl.WaitConverged(20 * time.Second); err != nil {
		c.Failf("C20/setup", "%v", err)
	}
	// a node that knows no primary: its own lease service never grants and names nobody
	w.lone = cluster.New(filepath.Join(base, "l"), 50*time.Millisecond)
	c.Cleanup(w.lone.Close)
	w.lone.Svc.SetAcquireErr("", fmt.Errorf("scripted: lease service unavailable"))
	if w.nodes[2], err = w.lone.AddNode("x", cluster.NodeOpts{Candidate: true}); err != nil {
		c.Failf("C20/setup", "%v", err)
	}
	w.h1 = &http.Client{Transport: &http.Transport{DisableKeepAlives: false}}
	w.h2 = &http.Client{Transport: &http2.Transport{AllowHTTP: true, DialTLS: func(network, addr string, cfg *tls.Config) (net.Conn, error) {
		return net.Dial(network, addr)
	}}}
	c.Cleanup(func() {
		w.h1.CloseIdleConnections()
		w.h2.CloseIdleConnections()
	})
	return w
}

// settle waits (bounded) until the main cluster has a primary, its replicas have
// caught up and no node holds internal locks: role changes and replication
// started by a valid request are over.
func (w *world) settle() {
	deadline := time.Now().Add(8 * time.Second)
	quiet := 0
	for time.Now().Before(deadline) && quiet < 3 {
		ok := w.cl.Primary() != nil && w.cl.WaitConverged(50*time.Millisecond) == nil
		if ok {
			for _, x := range w.nodes {
				// a valid /stream of the harness ends when its response is closed; the
				// server notices a moment later
				if x.Store.SubscriberByNodeID(foreignNodeID) != nil {
					ok = false
				}
			}
			for xi, x := range w.nodes {
				if xi == 0 && w.hold {
					continue // the halt keeps the primary's locks by design
				}
				for _, db := range x.Store.DBs() {
					for _, lt := range litefs.VerifLockTypes {
						if h := db.VerifLockHolder(lt); h.State != litefs.RWMutexStateUnlocked {
							ok = false
						}
					}
				}
			}
		}
		if ok {
			quiet++
		} else {
			quiet = 0
		}
		time.Sleep(time.Millisecond)
	}
}

// build turns an abstract request into an HTTP request and says whether it
// belongs to one of the clear-cut invalid classes (so that state must be
// unchanged), and why.
func (w *world) build(r Req) (req *http.Request, invalid string) {
	n := w.nodes[r.Node%3]
	q := url.Values{}
	known := map[string]bool{"/stream": true, "/tx": true, "/halt": true, "/handoff": true, "/promote": true, "/import": true, "/export": true, "/info": true, "/events": true}
	allowed := map[string][]string{"/stream": {"POST"}, "/tx": {"POST"}, "/halt": {"POST", "DELETE"}, "/handoff": {"POST"}, "/promote": {"POST"}, "/import": {"POST"}, "/export": {"GET"}, "/info": {"GET"}, "/events": {"GET"}}
	isPrimary := n.Store.IsPrimary()

	mark := func(why string) {
		if invalid == "" {
			invalid = why
		}
	}
	if !known[r.Endpoint] {
		if r.Endpoint != "/debug/vars" && r.Endpoint != "/metrics" {
			mark("unknown path")
		}
	} else {
		ok := false
		for _, m := range allowed[r.Endpoint] {
			if m == r.Method {
				ok = true
			}
		}
		if !ok {
			mark("wrong method")
		}
	}

	// name
	usesName := r.Endpoint == "/tx" || r.Endpoint == "/halt" || r.Endpoint == "/import" || r.Endpoint == "/export"
	name := ""
	switch r.Name {
	case PMissing:
	case PEmpty:
		q.Set("name", "")
	case PUnknown:
		name = "nosuch.db"
		q.Set("name", name)
	case PMalformed:
		name = "we ird%00name\t.db" // odd but harmless (no path separators: the name becomes a directory)
		q.Set("name", name)
	default:
		name = []string{dbA, dbW}[r.ID%2]
		q.Set("name", name)
	}
	if usesName && (r.Name == PMissing || r.Name == PEmpty) {
		mark("required parameter name missing or empty")
	}
	if (r.Endpoint == "/export" || r.Endpoint == "/tx" || (r.Endpoint == "/halt" && r.Method == "DELETE")) && (r.Name == PUnknown || r.Name == PMalformed) {
		mark("database does not exist")
	}

	// lock id
	if r.Endpoint == "/halt" || r.Endpoint == "/tx" {
		key := "id"
		if r.Endpoint == "/tx" {
			key = "lockID"
		}
		switch r.ID {
		case PMissing:
			if r.Endpoint == "/halt" {
				mark("required parameter id missing")
			}
		case PEmpty:
			q.Set(key, "")
			if r.Endpoint == "/halt" {
				mark("required parameter id empty")
			}
		case PMalformed:
			q.Set(key, "12x")
			if r.Endpoint == "/halt" {
				mark("required parameter id unparseable")
			}
		case PUnknown:
			q.Set(key, "987654321")
			if r.Endpoint == "/halt" && r.Method == "DELETE" {
				mark("release of a lock id that is not held")
			}
		default:
			q.Set(key, "4711")
			if r.Endpoint == "/halt" && r.Method == "DELETE" {
				mark("release of a lock id that is not held")
			}
		}
	}
	// node id
	if r.Endpoint == "/handoff" {
		switch r.NodeID {
		case PMissing:
			mark("required parameter nodeID missing")
		case PEmpty:
			q.Set("nodeID", "")
			mark("required parameter nodeID empty")
		case PMalformed:
			q.Set("nodeID", "zz-not-hex")
			mark("required parameter nodeID unparseable")
		case PUnknown:
			q.Set("nodeID", "00000000DEADBEEF")
			mark("handoff to a node that is not connected")
		default:
			q.Set("nodeID", litefs.FormatNodeID(w.nodes[1].Store.ID()))
		}
		if !isPrimary {
			mark("handoff on a node that is not primary")
		}
	}
	if r.Extra {
		q.Set("zzz", "1")
	}

	// body
	var body []byte
	switch r.Endpoint {
	case "/stream":
		var buf bytes.Buffer
		_ = lhttp.WritePosMapTo(&buf, w.nodes[1].Store.PosMap())
		body = bodyVariant(r.Body, buf.Bytes())
		if r.Body != BValid && r.Body != BOversized && r.Body != BNotContiguous {
			mark("undecodable position map")
		}
		if r.Body == BOversized || r.Body == BNotContiguous {
			body = buf.Bytes()
		}
		if !isPrimary {
			mark("stream from a node that is not primary")
		}
	case "/tx":
		valid := ltxFile(512, 99, 99, 0xdeadbeef)
		var db *litefs.DB
		if name != "" {
			db = n.Store.DB(name)
		}
		switch r.Body {
		case BCutSnapshot:
			max := uint64(7)
			if db != nil {
				max = uint64(db.Pos().TXID) + 1
			}
			snap := ltxFile(512, 1, max, 0)
			body = snap[:len(snap)*2/3]
			mark("undecodable transaction file")
		case BExtends:
			if db == nil || db.Pos().TXID == 0 {
				body = valid
				mark("transaction file does not extend the database's position")
				break
			}
			// exactly the next transaction of this database: acceptable from the holder
			// of the halt lock named in the request, and from nobody else
			pos := db.Pos()
			body = ltxFile(db.VerifPageSize(), uint64(pos.TXID)+1, uint64(pos.TXID)+1, uint64(pos.PostApplyChecksum))
			held := false
			if hl := db.HaltLock(); hl != nil {
				if id, err := strconv.ParseInt(q.Get("lockID"), 10, 64); err == nil && id == hl.ID {
					held = true
				}
			}
			if !held {
				mark("no halt lock is held under the lock id of the request")
			} else {
				// (the file claims a post-apply checksum that is not the resulting one:
				// a holder sending this is outside the property; do not send it)
				body = valid
				mark("transaction file does not extend the database's position")
			}
		case BValid, BNotContiguous:
			body = valid // well-formed, but it does not extend any database's position
			mark("transaction file does not extend the database's position")
		default:
			body = bodyVariant(r.Body, valid)
			mark("undecodable transaction file")
		}
	case "/import":
		img := gen.ImportImage(512, ref.ModeRollback, 5, 77).Bytes()
		body = bodyVariant(r.Body, img)
		if r.Body == BOversized {
			body = append(append([]byte(nil), img...), make([]byte, 1<<20)...) // trailing bytes beyond the image
		}
		if r.Body == BNotContiguous {
			body = img
		}
		if r.Body == BEmpty || r.Body == BGarbage || r.Body == BTruncated || r.Body == BHostileLen {
			mark("import body is not a SQLite database")
		}
		if !isPrimary {
			mark("import on a node that is not primary")
		}
	default:
		if r.Body == BGarbage || r.Body == BOversized {
			body = bodyVariant(r.Body, nil)
		}
	}
	if r.Endpoint == "/promote" && r.Method == "POST" && r.Node%3 == 2 {
		mark("promote on a node that knows no primary")
	}

	u := n.URL + r.Endpoint
	if enc := q.Encode(); enc != "" {
		u += "?" + enc
	}
	req, err := http.NewRequest(r.Method, u, bytes.NewReader(body))
	if err != nil {
		return nil, ""
	}
	switch r.Header {
	case HOwn:
		req.Header.Set("Litefs-Id", litefs.FormatNodeID(n.Store.ID()))
		if r.Endpoint == "/stream" || r.Endpoint == "/halt" || r.Endpoint == "/tx" {
			mark("own node id")
		}
	case HForeign:
		req.Header.Set("Litefs-Id", litefs.FormatNodeID(foreignNodeID))
	case HMalformed:
		req.Header.Set("Litefs-Id", "not hex at all")
	}
	return req, invalid
}

func bodyVariant(kind int, valid []byte) []byte {
	switch kind {
	case BEmpty:
		return nil
	case BTruncated:
		return append([]byte(nil), valid[:len(valid)*2/3]...)
	case BGarbage:
		b := make([]byte, 700)
		for i := range b {
			b[i] = byte(i*31 + 7)
		}
		return b
	case BOversized:
		return append(append([]byte(nil), valid...), make([]byte, 1<<20)...)
	case BHostileLen:
		return []byte{0xff, 0xff, 0xff, 0xff, 0x7f, 0xff, 0xff, 0xff, 1, 2, 3}
	default:
		return valid
	}
}

// ltxFile encodes a small well-formed single-page transaction file.
func ltxFile(pageSize uint32, min, max uint64, pre uint64) []byte {
	var buf bytes.Buffer
	enc := ltx.NewEncoder(&buf)
	prec := ltx.Checksum(pre | 1<<63)
	if min == 1 {
		prec = 0 // a snapshot has no predecessor
	}
	if err := enc.EncodeHeader(ltx.Header{Version: 1, PageSize: pageSize, Commit: 1, MinTXID: ltx.TXID(min), MaxTXID: ltx.TXID(max), Timestamp: 1, PreApplyChecksum: prec}); err != nil {
		panic(err)
	}
	page := ref.MakeHeaderPage(pageSize, ref.ModeRollback, 1, 1, 1, 1)
	_ = enc.EncodePage(ltx.PageHeader{Pgno: 1}, page)
	enc.SetPostApplyChecksum(ltx.Checksum(ref.PageChecksum(1, page)))
	_ = enc.Close()
	return buf.Bytes()
}

func runPlan(c *pbt.Case, p Plan) {
	w := setup(c)
	w.settle() // positions converge before the applying replica has released its locks
	if p.Hold {
		cli := lhttp.NewClient()
		for _, name := range []string{dbA, dbW} {
			if _, err := cli.AcquireHaltLock(context.Background(), w.nodes[0].URL, 0xCAFEBABE, name, 4711); err != nil {
				c.Failf("C20/setup", "halt lock: %v", err)
			}
		}
		c.Label("halt-lock-held")
		w.hold = true
		w.settle()
	}
	serverLog.take()
	reached := 0
	for i, r := range p.Reqs {
		if p.Hold && (r.Endpoint == "/import" || r.Endpoint == "/halt" || r.Endpoint == "/export" || r.Endpoint == "/stream") {
			// these wait for the write lock the halt holds (by design, up to the halt
			// lock's TTL); under a held lock the plan asks /tx instead
			r.Endpoint, r.Method = "/tx", "POST"
		}
		n := w.nodes[r.Node%3]
		req, invalid := w.build(r)
		if req == nil {
			continue
		}
		var before [3]string
		for j, x := range w.nodes {
			before[j] = nodeState(x, p.Hold && j == 0)
		}
		client := w.h1
		if r.H2 {
			client = w.h2
		}
		ctx, cancel := context.WithTimeout(context.Background(), 15*time.Second)
		resp, err := client.Do(req.WithContext(ctx))
		status, streamed := 0, false
		if err == nil {
			status = resp.StatusCode
			// long-lived endpoints: read a little, then hang up
			if (r.Endpoint == "/stream" || r.Endpoint == "/events") && status == 200 {
				buf := make([]byte, 64)
				_, _ = resp.Body.Read(buf)
				streamed = true
			} else {
				_, _ = io.Copy(io.Discard, io.LimitReader(resp.Body, 8<<20))
			}
			resp.Body.Close()
		}
		cancel()
		c.Notef("req %d node=%d %s %s h2=%v -> status=%d err=%v invalid=%q", i, r.Node, r.Method, req.URL.RequestURI(), r.H2, status, err, invalid)
		if err != nil {
			c.Failf("C20/no-response", "request %d (%s %s on %s, h2=%v, body %d bytes): no HTTP response: %v", i, r.Method, req.URL.RequestURI(), n.Name, r.H2, req.ContentLength, err)
		}
		time.Sleep(200 * time.Microsecond)
		if lg := serverLog.take(); strings.Contains(lg, "panic serving") || strings.Contains(lg, "panic:") {
			idx := strings.Index(lg, "panic")
			c.Failf("C20/handler-panic", "request %d (%s %s on %s, h2=%v): the server log shows a panic: %s", i, r.Method, req.URL.RequestURI(), n.Name, r.H2, lg[idx:min(len(lg), idx+700)])
		}
		for _, x := range w.nodes {
			if ex := x.Exits(); len(ex) > 0 {
				c.Failf("C20/store-exit", "request %d (%s %s on %s): node %s called Store.Exit(%v)", i, r.Method, req.URL.RequestURI(), n.Name, x.Name, ex)
			}
		}
		if status != 404 && status != 405 {
			reached++
			c.Labelf("endpoint:%s", r.Endpoint)
		}
		c.Labelf("status:%d", status)
		if invalid != "" {
			c.Labelf("invalid:%s", invalid)
			if status >= 200 && status < 300 && !streamed && invalid != "release of a lock id that is not held" && invalid != "own node id" {
				c.Observe("invalid-request-answered-2xx", 1)
			}
			// let background effects of the request (if any) surface before comparing
			var after [3]string
			for tries := 0; tries < 40; tries++ {
				same := true
				for j, x := range w.nodes {
					after[j] = nodeState(x, p.Hold && j == 0)
					if after[j] != before[j] {
						same = false
					}
				}
				if same {
					break
				}
				time.Sleep(500 * time.Microsecond)
			}
			for j := range w.nodes {
				if after[j] != before[j] {
					c.Failf("C20/invalid-request-changed-state", "request %d (%s %s on %s, h2=%v, status %d) is invalid (%s) but changed the observable state of node %s:\n--- before\n%s--- after\n%s", i, r.Method, req.URL.RequestURI(), n.Name, r.H2, status, invalid, w.nodes[j].Name, before[j], after[j])
				}
			}
		} else {
			c.Label("possibly-valid")
			// a valid request may start replication or a role change: let the cluster settle
			w.settle()
			// release anything a valid request acquired so that later requests see a quiet node
			for _, x := range w.nodes {
				for _, db := range x.Store.DBs() {
					db.ReleaseHaltLock(context.Background(), 4711)
					db.ReleaseHaltLock(context.Background(), 987654321)
				}
			}
		}
		// the node still answers
		ictx, icancel := context.WithTimeout(context.Background(), 10*time.Second)
		ireq, _ := http.NewRequestWithContext(ictx, "GET", n.URL+"/info", nil)
		iresp, ierr := w.h1.Do(ireq)
		if ierr != nil || iresp.StatusCode != 200 {
			icancel()
			c.Failf("C20/wedged", "after request %d (%s %s) node %s no longer answers /info: %v", i, r.Method, req.URL.RequestURI(), n.Name, ierr)
		}
		_, _ = io.Copy(io.Discard, iresp.Body)
		iresp.Body.Close()
		icancel()
	}
	// every node restarts on its directory
	for _, x := range w.nodes {
		x.Stop()
		if err := x.Start(); err != nil {
			c.Failf("C20/restart-failed", "node %s cannot reopen its data directory after the requests: %v", x.Name, err)
		}
	}
	if reached > 0 {
		c.NonTrivial()
	}
}

var apiProp = pbt.Prop[Plan]{ID: "C20", Name: "api", Gen: genPlan, Run: runPlan}

func TestProp_api(t *testing.T) { apiProp.Check(t) }

func TestReplay(t *testing.T) { pbt.Replay(t, apiProp) }

var _ = binary.BigEndian
