package pager

import (
	"fmt"
	"syscall"
	"time"

	"github.com/superfly/litefs/verif/mount"
	"github.com/superfly/litefs/verif/ref"
)

// WAL lock bytes on the shared-memory file.
const (
	WalWrite   = 120
	WalCkpt    = 121
	WalRecover = 122
	WalRead0   = 123
	WalDMS     = 128
)

const notUsed = 0xffffffff

// WalIndex is the model's wal-index (what SQLite keeps in shared memory).
type WalIndex struct {
	Init      bool      // the wal-index header has been initialised (recovery ran)
	BE        bool      // big-endian checksums
	Seq       uint32    // checkpoint sequence number
	Salt1     uint32    // salts of the current log generation
	Salt2     uint32    //
	MxFrame   int       // frames committed in the current generation
	NBackfill int       // frames already copied into the database file
	Ck1, Ck2  uint32    // running checksum after frame MxFrame
	Frames    []walRec  // the committed frames of the current generation
	ReadMark  [5]uint32 // reader marks
	Phys      int       // frames physically present in the file (incl. uncommitted leftovers), informational
}

type walRec struct {
	Pgno   uint32
	Commit uint32
	Data   []byte
}

// WalTx is an abstract WAL-mode write transaction.
type WalTx struct {
	Tx
	SpillFrames int  `json:"spillframes,omitempty"` // number of frames written (uncommitted) before the commit batch
	Repeat      int  `json:"repeat,omitempty"`      // that many pages get a second frame in the same transaction
	Tail        int  `json:"tail,omitempty"`        // NoWrite only: append that many uncommitted frames before releasing the lock
	BEChecksum  bool `json:"be,omitempty"`          // used when this transaction writes a log header
}

func (c *Conn) walName() string { return c.DB.Name + "-wal" }
func (c *Conn) shmName() string { return c.DB.Name + "-shm" }

// shmLock takes (or releases) a lock on bytes [120+ofst, 120+ofst+n) of the SHM file.
func (c *Conn) shmLock(typ int, start, n uint64) error {
	kind := map[int]string{0: "U", 1: "S", 2: "X"}[typ]
	c.op("shm %s %d..%d", kind, start, start+n-1)
	var err error
	switch typ {
	case 0:
		err = c.shmf.SetLk(mount.UnLck, start, start+n-1)
	case 1:
		err = c.shmf.SetLk(mount.RdLck, start, start+n-1)
	default:
		err = c.shmf.SetLk(mount.WrLck, start, start+n-1)
	}
	if err != nil {
		if mount.Errno(err) == syscall.EAGAIN {
			return ErrBusy
		}
		return opErr("shm lock", err)
	}
	return nil
}

// OpenWAL brings the connection into WAL mode: SHARED lock on the database
// file (kept for the life of the connection), the -wal and -shm files opened
// or created, the dead-man-switch dance, and wal-index recovery by the first
// opener.
func (c *Conn) OpenWAL() error {
	if c.shmf != nil {
		return nil
	}
	if err := c.Lock(LockShared); err != nil {
		return err
	}
	var err error
	c.op("open wal")
	if c.walf, _, err = c.M.OpenOrCreate(c.Owner, c.walName()); err != nil {
		return opErr("open wal", err)
	}
	c.op("open shm")
	if c.shmf, _, err = c.M.OpenOrCreate(c.Owner, c.shmName()); err != nil {
		return opErr("open shm", err)
	}
	// unixLockSharedMemory
	lt, err := c.shmf.GetLk(mount.WrLck, WalDMS, WalDMS)
	if err != nil {
		return opErr("getlk dms", err)
	}
	first := false
	if lt == mount.UnLck {
		if err := c.shmLock(2, WalDMS, 1); err != nil {
			return err
		}
		c.op("truncate shm 3")
		if err := c.shmf.Truncate(3); err != nil {
			return opErr("truncate shm", err)
		}
		first = true
	} else if lt == mount.WrLck {
		return ErrBusy
	}
	if err := c.shmLock(1, WalDMS, 1); err != nil {
		return err
	}
	// unixShmMap: extend the file to one 32 KiB region with single-byte writes.
	if sz, _ := c.shmf.Size(); sz < 32768 {
		for off := (sz / 4096) * 4096; off < 32768; off += 4096 {
			c.op("extend shm @%d", off+4095)
			if err := c.shmf.WriteAt([]byte{0}, off+4095); err != nil {
				return opErr("extend shm", err)
			}
		}
	}
	w := &c.DB.Wal
	if first || !w.Init {
		// walIndexRecover. If its locks are busy (LiteFS itself may hold them for a
		// moment, e.g. while it starts a snapshot) the connection gives up for now and
		// starts over at the next attempt: it must never go on with an index it has
		// not recovered, or it would treat a log with committed frames as empty.
		giveUp := func(err error) error {
			c.op("close shm (recovery busy)")
			_ = c.shmf.Close()
			_ = c.walf.Close()
			c.shmf, c.walf = nil, nil
			return err
		}
		if err := c.shmLock(2, WalWrite, 1); err != nil {
			return giveUp(err)
		}
		if err := c.shmLock(2, WalCkpt, 2); err != nil {
			_ = c.shmLock(0, WalWrite, 1)
			return giveUp(err)
		}
		for i := uint64(1); i <= 4; i++ {
			if err := c.shmLock(2, WalRead0+i, 1); err == nil {
				_ = c.shmLock(0, WalRead0+i, 1)
			}
		}
		c.recoverIndex()
		_ = c.shmLock(0, WalCkpt, 2)
		_ = c.shmLock(0, WalWrite, 1)
	}
	return nil
}

// recoverIndex rebuilds the model's wal-index from the WAL file as
// walIndexRecover does.
func (c *Conn) recoverIndex() {
	w := &c.DB.Wal
	raw, _ := c.readWholeFile(c.walf)
	scan := ref.WALScan(raw)
	*w = WalIndex{Init: true, ReadMark: [5]uint32{0, notUsed, notUsed, notUsed, notUsed}}
	if !scan.HeaderOK || scan.LastCommit == 0 {
		return
	}
	w.BE, w.Salt1, w.Salt2 = scan.BigEndian, scan.Salt1, scan.Salt2
	for _, f := range scan.Valid[:scan.LastCommit] {
		w.Frames = append(w.Frames, walRec{f.Pgno, f.Commit, f.Data})
	}
	w.MxFrame = scan.LastCommit
	// running checksum at the last commit frame
	c1, c2 := ref.WALChecksum(w.BE, 0, 0, raw[:24])
	for _, f := range scan.Valid[:scan.LastCommit] {
		_, c1, c2 = ref.WALFrameHeader(w.BE, f.Pgno, f.Commit, w.Salt1, w.Salt2, c1, c2, f.Data)
	}
	w.Ck1, w.Ck2 = c1, c2
	w.ReadMark[1] = uint32(w.MxFrame)
}

func (c *Conn) readWholeFile(f *mount.File) ([]byte, error) {
	sz, err := f.Size()
	if err != nil {
		return nil, err
	}
	buf := make([]byte, sz)
	n, err := f.ReadAt(buf, 0)
	return buf[:n], err
}

// syncWithLiteFS notices what a real connection would learn from the
// wal-index header LiteFS rewrites: if LiteFS checkpointed and emptied the
// log on its own, the model's index is reset.
func (c *Conn) syncWithLiteFS() {
	w := &c.DB.Wal
	if w.MxFrame == 0 {
		return
	}
	if sz, err := c.walf.Size(); err == nil && sz == 0 {
		w.MxFrame, w.NBackfill, w.Frames, w.Phys = 0, 0, nil, 0
		w.ReadMark = [5]uint32{0, notUsed, notUsed, notUsed, notUsed}
		// (the connection recovers its index from an empty file: no header, so the next
		// writer draws fresh random salts - sqlite3WalFrames with nCkpt == 0 - and never
		// repeats the salts of the log LiteFS emptied)
		w.Salt1, w.Salt2, w.Seq = 0, 0, 0
	}
}

// beginRead takes the read lock a transaction needs (walTryBeginRead).
func (c *Conn) beginRead(useWal bool) error {
	w := &c.DB.Wal
	if !useWal && w.NBackfill == w.MxFrame {
		if err := c.shmLock(1, WalRead0, 1); err != nil {
			return err
		}
		c.readSlot = 0
		return nil
	}
	// find a slot whose mark equals mxFrame, else claim one
	best := -1
	for i := 1; i <= 4; i++ {
		if w.ReadMark[i] == uint32(w.MxFrame) {
			best = i
			break
		}
	}
	if best < 0 {
		for i := 1; i <= 4; i++ {
			if err := c.shmLock(2, WalRead0+uint64(i), 1); err == nil {
				w.ReadMark[i] = uint32(w.MxFrame)
				_ = c.shmLock(0, WalRead0+uint64(i), 1)
				best = i
				break
			} else if err != ErrBusy {
				return err
			}
		}
	}
	if best < 0 {
		return ErrBusy
	}
	if err := c.shmLock(1, WalRead0+uint64(best), 1); err != nil {
		return err
	}
	c.readSlot = best
	return nil
}

func (c *Conn) endRead() {
	if c.readSlot >= 0 && c.shmf != nil {
		_ = c.shmLock(0, WalRead0+uint64(c.readSlot), 1)
	}
	c.readSlot = -1
}

func (db *DBModel) newSalt() uint32 {
	db.nextSalt = db.nextSalt*1664525 + 1013904223
	return db.nextSalt | 1
}

func (c *Conn) frameSize() int64 { return 24 + int64(c.DB.PageSize) }

// appendFrame writes one frame at the given index with the running checksum.
func (c *Conn) appendFrame(idx int, pgno, commit uint32, data []byte, c1, c2 uint32) (uint32, uint32, error) {
	w := &c.DB.Wal
	hdr, n1, n2 := ref.WALFrameHeader(w.BE, pgno, commit, w.Salt1, w.Salt2, c1, c2, data)
	off := 32 + int64(idx)*c.frameSize()
	c.op("write wal frame %d hdr pgno=%d commit=%d @%d", idx+1, pgno, commit, off)
	if err := c.walf.WriteAt(hdr, off); err != nil {
		return 0, 0, opErr("write wal frame header", err)
	}
	c.op("write wal frame %d data", idx+1)
	if err := c.walf.WriteAt(data, off+24); err != nil {
		return 0, 0, opErr("write wal frame data", err)
	}
	if idx+1 > w.Phys {
		w.Phys = idx + 1
	}
	return n1, n2, nil
}

// ExecWALTx runs one write transaction in WAL mode. The capture point for
// LiteFS is the release of the WRITE lock at the end.
func (c *Conn) ExecWALTx(tx WalTx) (res TxResult, err error) {
	db := c.DB
	w := &db.Wal
	res.Image = db.Img
	c.CommitReturned = false
	if err = c.OpenWAL(); err != nil {
		return res, err
	}
	c.syncWithLiteFS()
	if err = c.beginRead(false); err != nil {
		return res, err
	}
	defer c.endRead()
	// the busy handler retries the WRITE lock
	for deadline := time.Now().Add(c.busyTimeout()); ; time.Sleep(50 * time.Microsecond) {
		if err = c.shmLock(2, WalWrite, 1); err != ErrBusy || time.Now().After(deadline) {
			break
		}
	}
	if err != nil {
		return res, err
	}
	unlocked := false
	unlockWrite := func() error {
		if unlocked {
			return nil
		}
		unlocked = true
		return c.shmLock(0, WalWrite, 1)
	}
	defer func() { _ = unlockWrite() }()

	// walRestartLog
	if w.MxFrame > 0 && w.NBackfill == w.MxFrame && !(tx.NoWrite && tx.Tail == 0) {
		if e := c.shmLock(2, WalRead0+1, 4); e == nil {
			w.Seq++
			w.Salt1++
			w.Salt2 = db.newSalt()
			w.MxFrame, w.NBackfill, w.Frames = 0, 0, nil
			w.ReadMark = [5]uint32{0, 0, notUsed, notUsed, notUsed}
			_ = c.shmLock(0, WalRead0+1, 4)
			res.Restarted = true
		} else if e != ErrBusy {
			return res, e
		}
		// the writer always ends up on a real reader slot
		c.endRead()
		if err = c.beginRead(true); err != nil {
			return res, err
		}
	}

	if tx.NoWrite && tx.Tail == 0 {
		return res, unlockWrite()
	}

	wtx := tx.Tx
	wtx.Holes = 0 // in WAL mode SQLite writes a frame for every dirty page
	newImg, dirty := db.buildImage(db.Img, wtx, ref.ModeWAL)
	res.Pages = len(dirty)
	res.Attempt = newImg

	idx := w.MxFrame
	c1, c2 := w.Ck1, w.Ck2
	if idx == 0 {
		if w.Salt1 == 0 && w.Salt2 == 0 {
			w.Salt1, w.Salt2 = db.newSalt(), db.newSalt()
		}
		w.BE = tx.BEChecksum
		hdr := ref.WALHeader(w.BE, db.PageSize, w.Seq, w.Salt1, w.Salt2)
		c.op("write wal header salt=%08x/%08x", w.Salt1, w.Salt2)
		if e := c.walf.WriteAt(hdr, 0); e != nil {
			return res, opErr("write wal header", e)
		}
		if c.Sync != SyncOff {
			c.op("fsync wal")
			if e := c.walf.Sync(); e != nil {
				return res, opErr("fsync wal", e)
			}
		}
		c1, c2 = ref.WALChecksum(w.BE, 0, 0, hdr[:24])
		res.WroteHeader = true
	}

	// Frames: the listed pages in ascending order (the dirty list is sorted),
	// page 1 included; some frames first as an uncommitted spill, repeated
	// pages a second time, the last frame carries the commit size.
	var pgs []uint32
	for p := range dirty {
		pgs = append(pgs, p)
	}
	sortU32(pgs)
	var seq []uint32
	if tx.NoWrite { // only an uncommitted tail
		for i := 0; i < tx.Tail; i++ {
			seq = append(seq, pgs[i%len(pgs)])
		}
	} else {
		if tx.SpillFrames > 0 && newImg.N() < db.Img.N() {
			// pages written in a spill before the transaction shrank the database below
			// them (auto-vacuum, incremental vacuum): frames past the commit size
			lock := ref.LockPgno(db.PageSize)
			for p, k := db.Img.N(), 0; p > newImg.N() && k < 2; p, k = p-1, k+1 {
				if p != lock && p != 1 {
					seq = append(seq, p)
				}
			}
		}
		if tx.SpillFrames > 0 {
			for i := 0; i < tx.SpillFrames && i < len(pgs); i++ {
				if pgs[i] != 1 {
					seq = append(seq, pgs[i])
				}
			}
			res.Spilled = 1
		}
		seq = append(seq, pgs...)
		for i := 0; i < tx.Repeat && i < len(pgs); i++ {
			seq = append(seq, pgs[len(pgs)-1-i])
		}
	}
	var recs []walRec
	for i, p := range seq {
		commit := uint32(0)
		if i == len(seq)-1 && !tx.Rollback && !tx.NoWrite {
			commit = newImg.N()
		}
		data := newImg.Page(p)
		if p > newImg.N() {
			data = append([]byte(nil), db.Img.Page(p)...)
			data[len(data)-5] ^= 0x77 // an intermediate version of a page that is about to be cut off
		}
		for _, later := range seq[i+1:] {
			if later == p && !tx.NoWrite {
				// SQLite writes a page again when it changed after a cache spill: the
				// earlier frame carries an intermediate version, only the last one counts
				stale := append([]byte(nil), data...)
				stale[len(stale)-3] ^= 0xa5
				stale[len(stale)/2] ^= 0x3c
				data = stale
				break
			}
		}
		if c1, c2, err = c.appendFrame(idx, p, commit, data, c1, c2); err != nil {
			return res, err
		}
		recs = append(recs, walRec{p, commit, data})
		idx++
	}
	res.Frames = len(seq)
	if tx.Rollback || tx.NoWrite {
		res.RolledBack = tx.Rollback
		// frames stay in the file beyond mxFrame; the next writer overwrites them
		return res, unlockWrite()
	}
	if c.Sync == SyncFull {
		c.op("fsync wal")
		if e := c.walf.Sync(); e != nil {
			return res, opErr("fsync wal", e)
		}
	}
	// committed in SQLite's eyes: update the wal-index
	w.Frames = append(w.Frames, recs...)
	w.MxFrame, w.Ck1, w.Ck2 = idx, c1, c2
	db.Img, db.Change, db.Mode = newImg, db.Change+1, ref.ModeWAL
	res.Image = newImg
	if err = unlockWrite(); err != nil {
		return res, err
	}
	res.Committed = true
	c.CommitReturned = true
	return res, nil
}

// Checkpoint kinds.
const (
	CkptPassive  = 0
	CkptFull     = 1
	CkptRestart  = 2
	CkptTruncate = 3
)

// CkptResult reports what a checkpoint did.
type CkptResult struct {
	Backfilled int  // frames copied
	Complete   bool // everything in the log is now in the database file
	Reset      bool // the log was restarted (RESTART/TRUNCATE)
	Busy       bool
}

// Checkpoint runs an application checkpoint as sqlite3WalCheckpoint does.
func (c *Conn) Checkpoint(kind int) (res CkptResult, err error) {
	db := c.DB
	w := &db.Wal
	if err = c.OpenWAL(); err != nil {
		return res, err
	}
	c.syncWithLiteFS()
	if err = c.shmLock(2, WalCkpt, 1); err != nil {
		if err == ErrBusy {
			res.Busy = true
			return res, nil
		}
		return res, err
	}
	defer func() { _ = c.shmLock(0, WalCkpt, 1) }()
	haveWrite := false
	if kind != CkptPassive {
		if e := c.shmLock(2, WalWrite, 1); e == nil {
			haveWrite = true
			defer func() { _ = c.shmLock(0, WalWrite, 1) }()
		} else if e == ErrBusy {
			res.Busy = true
			kind = CkptPassive
		} else {
			return res, e
		}
	}

	// walCheckpoint
	mxSafe := w.MxFrame
	for i := 1; i <= 4; i++ {
		if int64(w.ReadMark[i]) < int64(mxSafe) {
			if e := c.shmLock(2, WalRead0+uint64(i), 1); e == nil {
				if i == 1 {
					w.ReadMark[i] = uint32(mxSafe)
				} else {
					w.ReadMark[i] = notUsed
				}
				_ = c.shmLock(0, WalRead0+uint64(i), 1)
			} else if e == ErrBusy {
				mxSafe = int(w.ReadMark[i])
				res.Busy = true
			} else {
				return res, e
			}
		}
	}
	if w.NBackfill < mxSafe {
		if e := c.shmLock(2, WalRead0, 1); e == nil {
			if c.Sync != SyncOff {
				c.op("fsync wal")
				if e := c.walf.Sync(); e != nil {
					return res, opErr("fsync wal", e)
				}
			}
			// latest version <= mxSafe of each page that has a frame in (nBackfill, mxSafe]
			latest := map[uint32]int{}
			var size uint32
			for i := 0; i < mxSafe; i++ {
				latest[w.Frames[i].Pgno] = i
				if w.Frames[i].Commit != 0 {
					size = w.Frames[i].Commit
				}
			}
			var pgs []uint32
			for p, i := range latest {
				if i >= w.NBackfill && p <= size {
					pgs = append(pgs, p)
				}
			}
			sortU32(pgs)
			ps := int64(db.PageSize)
			for _, p := range pgs {
				c.op("write db page %d (checkpoint)", p)
				if e := c.dbf.WriteAt(w.Frames[latest[p]].Data, int64(p-1)*ps); e != nil {
					_ = c.shmLock(0, WalRead0, 1)
					return res, opErr("checkpoint write", e)
				}
			}
			if mxSafe == w.MxFrame {
				c.op("truncate db %d pages (checkpoint)", size)
				if e := c.dbf.Truncate(int64(size) * ps); e != nil {
					_ = c.shmLock(0, WalRead0, 1)
					return res, opErr("checkpoint truncate", e)
				}
				if c.Sync != SyncOff {
					c.op("fsync db")
					_ = c.dbf.Sync()
				}
			}
			res.Backfilled = mxSafe - w.NBackfill
			w.NBackfill = mxSafe
			_ = c.shmLock(0, WalRead0, 1)
		} else if e == ErrBusy {
			res.Busy = true
		} else {
			return res, e
		}
	}
	res.Complete = w.NBackfill == w.MxFrame
	if kind >= CkptRestart && haveWrite && res.Complete && w.MxFrame > 0 {
		if e := c.shmLock(2, WalRead0+1, 4); e == nil {
			w.Seq++
			w.Salt1++
			w.Salt2 = db.newSalt()
			w.MxFrame, w.NBackfill, w.Frames = 0, 0, nil
			w.ReadMark = [5]uint32{0, 0, notUsed, notUsed, notUsed}
			res.Reset = true
			if kind == CkptTruncate {
				c.op("truncate wal 0")
				if e := c.walf.Truncate(0); e != nil {
					_ = c.shmLock(0, WalRead0+1, 4)
					return res, opErr("truncate wal", e)
				}
				w.Phys = 0
			}
			_ = c.shmLock(0, WalRead0+1, 4)
		} else if e == ErrBusy {
			res.Busy = true
		} else {
			return res, e
		}
	}
	return res, nil
}

// ReadImageWAL reads the database as a WAL-mode reader sees it: under a read
// lock, the database file overlaid with the committed frames of the log, both
// read through the mount.
func (c *Conn) ReadImageWAL() (*ref.Image, error) {
	if err := c.OpenWAL(); err != nil {
		return nil, err
	}
	c.syncWithLiteFS()
	if err := c.beginRead(false); err != nil {
		return nil, err
	}
	defer c.endRead()
	base, err := ReadFileImage(c.dbf, c.DB.PageSize)
	if err != nil {
		return nil, err
	}
	raw, err := c.readWholeFile(c.walf)
	if err != nil {
		return nil, opErr("read wal", err)
	}
	scan := ref.WALScan(raw)
	if scan.HeaderOK && scan.LastCommit > 0 {
		if scan.PageSize != c.DB.PageSize {
			return nil, fmt.Errorf("wal page size %d != database page size %d", scan.PageSize, c.DB.PageSize)
		}
		return scan.Overlay(base), nil
	}
	return base, nil
}

// SwitchToWAL runs the rollback-journal transaction that PRAGMA
// journal_mode=WAL issues: page 1 is rewritten with the WAL read/write
// version. On a database that does not exist yet it also creates it.
func (c *Conn) SwitchToWAL(tx Tx) (TxResult, error) {
	c.DB.pendingMode = ref.ModeWAL
	defer func() { c.DB.pendingMode = 0 }()
	saved := c.JournalMode
	c.JournalMode = Delete
	defer func() { c.JournalMode = saved }()
	return c.ExecRollbackTx(tx)
}

// BeginRead starts a read transaction and keeps its read lock until EndRead.
func (c *Conn) BeginRead() error {
	c.syncWithLiteFS()
	return c.beginRead(false)
}

// EndRead ends the read transaction started by BeginRead.
func (c *Conn) EndRead() { c.endRead() }

// SwitchToRollback runs what PRAGMA journal_mode=DELETE issues on a WAL
// database: under the EXCLUSIVE lock the log is checkpointed and the -wal and
// -shm files are removed (sqlite3PagerCloseWal), then a rollback-journal
// transaction rewrites page 1 with the legacy read/write version.
func (c *Conn) SwitchToRollback(tx Tx) (TxResult, error) {
	if err := c.OpenWAL(); err != nil {
		return TxResult{Image: c.DB.Img}, err
	}
	c.syncWithLiteFS()
	if err := c.LockBusy(LockExclusive); err != nil {
		return TxResult{Image: c.DB.Img}, err
	}
	if _, err := c.Checkpoint(CkptTruncate); err != nil {
		_ = c.Unlock(LockShared)
		return TxResult{Image: c.DB.Img}, err
	}
	if c.DB.Wal.MxFrame != c.DB.Wal.NBackfill {
		_ = c.Unlock(LockShared)
		return TxResult{Image: c.DB.Img}, ErrBusy
	}
	c.op("close shm")
	_ = c.shmf.Close()
	c.shmf = nil
	c.op("unlink shm")
	_ = c.M.Remove(c.shmName())
	c.op("close wal")
	_ = c.walf.Close()
	c.walf = nil
	c.op("unlink wal")
	if err := c.M.Remove(c.walName()); err != nil {
		return TxResult{Image: c.DB.Img}, opErr("unlink wal", err)
	}
	c.DB.Wal = WalIndex{}
	c.readSlot = -1
	_ = c.Unlock(LockShared)
	_ = c.Unlock(LockNone)
	c.DB.pendingMode = ref.ModeRollback
	defer func() { c.DB.pendingMode = 0 }()
	saved := c.JournalMode
	c.JournalMode = Delete
	defer func() { c.JournalMode = saved }()
	tx.Rollback, tx.NoWrite = false, false
	return c.ExecRollbackTx(tx)
}
