package pager

// WalIndex is the model's wal-index (what SQLite keeps in shared memory).
type WalIndex struct {
	Exists bool
}
