// Package pager is a deterministic model of SQLite's pager: it turns abstract
// transactions into the exact sequence of file operations SQLite issues
// against a LiteFS mount (rollback-journal modes DELETE / TRUNCATE / PERSIST
// with spills, rollbacks and no-sync headers; WAL mode with frames, rollbacks,
// log restarts and checkpoints), as observed from real SQLite 3.39 on the same
// handlers (DESIGN.md appendix A) and from pager.c / wal.c / os_unix.c.
//
// The simulator keeps its own model of the database (what SQLite believes the
// committed image is). That model - never what LiteFS stored - is what the
// oracles compare against.
package pager

import (
	"encoding/binary"
	"fmt"
	"syscall"
	"time"

	"github.com/superfly/litefs/verif/mount"
	"github.com/superfly/litefs/verif/ref"
)

// Journal modes.
const (
	Delete   = "DELETE"
	Truncate = "TRUNCATE"
	Persist  = "PERSIST"
	WAL      = "WAL"
)

// Synchronous settings.
const (
	SyncFull   = "FULL"
	SyncNormal = "NORMAL"
	SyncOff    = "OFF"
)

// Lock levels of the database file (os_unix.c).
const (
	LockNone      = 0
	LockShared    = 1
	LockReserved  = 2
	LockPending   = 3
	LockExclusive = 4
)

const (
	pendingByte  = 0x40000000
	reservedByte = pendingByte + 1
	sharedFirst  = pendingByte + 2
	sharedSize   = 510
)

var journalMagic = []byte{0xd9, 0xd5, 0x05, 0xf9, 0x20, 0xa1, 0x63, 0xd7}

// ErrBusy is returned when a lock could not be obtained (SQLITE_BUSY).
var ErrBusy = fmt.Errorf("pager: busy")

// DBModel is the state all connections to one database share in a real
// system (the committed image as SQLite sees it, plus the wal-index).
type DBModel struct {
	Name     string
	PageSize uint32
	Img      *ref.Image // committed logical image
	Change   uint32     // file change counter
	Mode     int        // ref.ModeRollback or ref.ModeWAL as stamped in the header
	Wal      WalIndex
	nextSalt uint32

	pendingMode int // set while a journal_mode switch transaction runs
}

// SetSaltSeed makes the WAL salts this model generates differ from those of
// other models (SQLite draws them at random; two nodes never share them).
func (db *DBModel) SetSaltSeed(seed uint32) { db.nextSalt = seed*2654435761 + 0x1000 }

// NewDBModel returns the model of a database that does not exist yet.
func NewDBModel(name string, pageSize uint32) *DBModel {
	return &DBModel{Name: name, PageSize: pageSize, Img: ref.NewImage(pageSize), Mode: ref.ModeRollback, nextSalt: 0x1000}
}

// Conn is one SQLite connection (one POSIX lock owner, i.e. one process).
type Conn struct {
	M     *mount.Mount
	DB    *DBModel
	Owner uint64

	JournalMode string
	Sync        string
	SectorSize  uint32

	// OnOp, if set, is called before every file operation the connection
	// issues (crash-point enumeration, tracing).
	OnOp func(op string)

	dbf   *mount.File
	jf    *mount.File // journal handle kept open in TRUNCATE/PERSIST
	walf  *mount.File
	shmf  *mount.File
	level int

	readSlot int // WAL: 0..4 = READ lock slot held, -1 none
	Trace    []string
	TraceOn  bool

	// BusyTimeout is how long a lock upgrade that hits SQLITE_BUSY is retried
	// (sqlite3_busy_timeout). Zero means two seconds.
	BusyTimeout time.Duration

	// CommitReturned is set as soon as the operation that finalises the current
	// transaction (journal unlink / truncate / header zeroing; WAL write-lock
	// release) has returned success, and cleared when a transaction starts.
	CommitReturned bool

	// HotJournalSeen is set when the connection found a journal that SQLite
	// would have treated as hot at the start of a transaction.
	HotJournalSeen bool
}

// NewConn returns a connection in rollback (DELETE) mode with full sync.
func NewConn(m *mount.Mount, db *DBModel, owner uint64) *Conn {
	return &Conn{M: m, DB: db, Owner: owner, JournalMode: Delete, Sync: SyncFull, SectorSize: 512, readSlot: -1}
}

func (c *Conn) op(format string, a ...any) {
	if c.OnOp == nil && !c.TraceOn {
		return
	}
	s := fmt.Sprintf(format, a...)
	if c.TraceOn {
		c.Trace = append(c.Trace, s)
	}
	if c.OnOp != nil {
		c.OnOp(s)
	}
}

// OpError wraps a failed file operation.
type OpError struct {
	Op    string
	Errno syscall.Errno
	Err   error
}

func (e *OpError) Error() string { return fmt.Sprintf("%s: %v (errno %d)", e.Op, e.Err, int(e.Errno)) }
func (e *OpError) Unwrap() error { return e.Err }

func opErr(op string, err error) error {
	if err == nil {
		return nil
	}
	return &OpError{Op: op, Errno: mount.Errno(err), Err: err}
}

// ---- file plumbing ------------------------------------------------------------------

// OpenDB opens (or creates) the database file.
func (c *Conn) OpenDB() error {
	if c.dbf != nil {
		return nil
	}
	c.op("open %s", c.DB.Name)
	f, _, err := c.M.OpenOrCreate(c.Owner, c.DB.Name)
	if err != nil {
		return opErr("open db", err)
	}
	c.dbf = f
	return nil
}

// Close closes every handle of the connection (which releases its locks).
func (c *Conn) Close() {
	if c.jf != nil {
		c.op("close journal")
		_ = c.jf.Close()
		c.jf = nil
	}
	if c.shmf != nil {
		c.op("close shm")
		_ = c.shmf.Close()
		c.shmf = nil
	}
	if c.walf != nil {
		c.op("close wal")
		_ = c.walf.Close()
		c.walf = nil
	}
	if c.dbf != nil {
		c.op("close db")
		_ = c.dbf.Close()
		c.dbf = nil
	}
	c.level = LockNone
	c.readSlot = -1
}

// DBFile returns the open database handle (nil if closed).
func (c *Conn) DBFile() *mount.File { return c.dbf }

// Level returns the connection's lock level on the database file.
func (c *Conn) Level() int { return c.level }

// ---- database file locks (os_unix.c unixLock / unixUnlock) ---------------------------

func busy(err error) error {
	if mount.Errno(err) == syscall.EAGAIN {
		return ErrBusy
	}
	return opErr("lock", err)
}

// Lock raises the lock level on the database file.
func (c *Conn) Lock(level int) error {
	if err := c.OpenDB(); err != nil {
		return err
	}
	if c.level >= level {
		return nil
	}
	c.op("lock db %d->%d", c.level, level)
	f := c.dbf
	if level == LockShared || (level == LockExclusive && c.level < LockPending) {
		typ := mount.RdLck
		if level == LockExclusive {
			typ = mount.WrLck
		}
		if err := f.SetLk(typ, pendingByte, pendingByte); err != nil {
			return busy(err)
		}
		if level == LockExclusive {
			c.level = LockPending
		}
	}
	switch level {
	case LockShared:
		err := f.SetLk(mount.RdLck, sharedFirst, sharedFirst+sharedSize-1)
		_ = f.SetLk(mount.UnLck, pendingByte, pendingByte)
		if err != nil {
			return busy(err)
		}
		c.level = LockShared
	case LockReserved:
		if err := f.SetLk(mount.WrLck, reservedByte, reservedByte); err != nil {
			return busy(err)
		}
		c.level = LockReserved
	case LockExclusive:
		if err := f.SetLk(mount.WrLck, sharedFirst, sharedFirst+sharedSize-1); err != nil {
			return busy(err)
		}
		c.level = LockExclusive
	}
	return nil
}

func (c *Conn) busyTimeout() time.Duration {
	if c.BusyTimeout == 0 {
		return 2 * time.Second
	}
	return c.BusyTimeout
}

// LockBusy is Lock with the busy handler: ErrBusy is retried until BusyTimeout.
func (c *Conn) LockBusy(level int) error {
	d := c.BusyTimeout
	if d == 0 {
		d = 2 * time.Second
	}
	deadline := time.Now().Add(d)
	for {
		err := c.Lock(level)
		if err != ErrBusy || time.Now().After(deadline) {
			return err
		}
		time.Sleep(50 * time.Microsecond)
	}
}

// Unlock lowers the lock level to LockShared or LockNone.
func (c *Conn) Unlock(level int) error {
	if c.dbf == nil || c.level <= level {
		return nil
	}
	c.op("unlock db %d->%d", c.level, level)
	f := c.dbf
	if c.level > LockShared {
		if level == LockShared {
			if err := f.SetLk(mount.RdLck, sharedFirst, sharedFirst+sharedSize-1); err != nil {
				return opErr("downgrade to shared", err)
			}
		}
		if err := f.SetLk(mount.UnLck, pendingByte, reservedByte); err != nil {
			return opErr("unlock pending+reserved", err)
		}
	}
	if level == LockNone {
		if err := f.SetLk(mount.UnLck, 0, ^uint64(0)>>1); err != nil {
			return opErr("unlock all", err)
		}
	}
	c.level = level
	return nil
}

// ---- rollback-journal transactions ------------------------------------------------------

// Write is one page modification of a transaction: Page is a 1-based page
// number in the image being built (pages beyond the current size are appended).
type Write struct {
	Pgno uint32 `json:"p"`
	Ver  uint32 `json:"v"`
}

// Tx is an abstract write transaction.
type Tx struct {
	Writes     []Write `json:"w"`                // pages modified, in order (page 1 is always modified in addition)
	NewSize    uint32  `json:"n"`                // database size in pages after the transaction (>= 1)
	SpillAfter int     `json:"spill,omitempty"`  // >0: the page cache spills after that many modifications, and again every SpillAfter
	Rollback   bool    `json:"rb,omitempty"`     // finish with ROLLBACK instead of COMMIT
	Fill       byte    `json:"f"`                // content tag
	NoWrite    bool    `json:"nowrite,omitempty"` // take the write lock and release it without writing anything
	Holes      int     `json:"holes,omitempty"`   // rollback modes: that many new interior pages are never written (SQLite skips pages it allocated and freed again inside the transaction); they exist as zeroes
}

// TxResult reports what happened.
type TxResult struct {
	Committed  bool       // the commit step (journal finalisation / WAL write-lock release) returned success
	RolledBack bool       // the program ended with a rollback
	Spilled    int        // number of cache spills
	Segments   int        // journal segments written
	Image      *ref.Image // the image SQLite sees afterwards (the model)
	Pages      int        // distinct pages modified
	Attempt    *ref.Image // the image the transaction was building (set even if it did not commit)

	// WAL mode
	Frames      int  // frames written
	Restarted   bool // the log was restarted (new salts) by this transaction
	WroteHeader bool // a log header was written
}

func (c *Conn) journalName() string { return c.DB.Name + "-journal" }

func (c *Conn) hdrSize() int64 { return int64(c.SectorSize) }

// journalHeader builds the sector-sized header as writeJournalHdr does: the
// 28 meaningful bytes, repeated in units of min(pageSize, sectorSize).
func (c *Conn) journalHeader(nonce, origSize uint32, noSync bool) []byte {
	ps := c.DB.PageSize
	unit := ps
	if c.SectorSize < unit {
		unit = c.SectorSize
	}
	h := make([]byte, unit)
	if noSync {
		copy(h, journalMagic)
		binary.BigEndian.PutUint32(h[8:], 0xffffffff)
	}
	binary.BigEndian.PutUint32(h[12:], nonce)
	binary.BigEndian.PutUint32(h[16:], origSize)
	binary.BigEndian.PutUint32(h[20:], c.SectorSize)
	binary.BigEndian.PutUint32(h[24:], ps)
	return h
}

func journalCksum(nonce uint32, data []byte) uint32 {
	ck := nonce
	for i := len(data) - 200; i > 0; i -= 200 {
		ck += uint32(data[i])
	}
	return ck
}

// buildImage computes the image a transaction produces from base.
func (db *DBModel) buildImage(base *ref.Image, tx Tx, mode int) (*ref.Image, map[uint32]bool) {
	img := base.Clone()
	img.PageSize = db.PageSize
	dirty := map[uint32]bool{}
	n := tx.NewSize
	if n == 0 {
		n = 1
	}
	lock := ref.LockPgno(db.PageSize)
	for _, w := range tx.Writes {
		if w.Pgno <= 1 || w.Pgno > n || w.Pgno == lock {
			continue
		}
		img.Set(w.Pgno, ref.MakePage(db.PageSize, w.Pgno, w.Ver, tx.Fill))
		dirty[w.Pgno] = true
	}
	// Pages of an extended file are normally written once; SQLite skips the ones it
	// allocated and freed again inside the transaction (PGHDR_DONT_WRITE), which then
	// exist as zero-filled holes behind the pages it did write. The last page is
	// always written (that is how the file is extended).
	holes := tx.Holes
	for p := base.N() + 1; p <= n; p++ {
		if p == 1 || p == lock {
			continue
		}
		if !dirty[p] && holes > 0 && p < n && p > 2 {
			img.Set(p, make([]byte, db.PageSize))
			holes--
			continue
		}
		if !dirty[p] {
			img.Set(p, ref.MakePage(db.PageSize, p, 0, tx.Fill))
			dirty[p] = true
		}
	}
	img.Resize(n)
	img.Set(1, ref.MakeHeaderPage(db.PageSize, mode, db.Change+1, n, db.Change+1, tx.Fill))
	dirty[1] = true
	return img, dirty
}

// ExecRollbackTx runs one write transaction in a rollback-journal mode.
func (c *Conn) ExecRollbackTx(tx Tx) (res TxResult, err error) {
	db := c.DB
	res.Image = db.Img
	c.CommitReturned = false
	if err = c.OpenDB(); err != nil {
		return res, err
	}
	defer func() {
		// Whatever happened, SQLite drops its locks at the end of the statement.
		_ = c.Unlock(LockShared)
		// pager_unlock closes the journal when the database lock is dropped (files
		// can be deleted while open on unix), in every journal mode.
		if c.jf != nil {
			c.op("close journal")
			_ = c.jf.Close()
			c.jf = nil
		}
		_ = c.Unlock(LockNone)
	}()

	if err = c.Lock(LockShared); err != nil {
		return res, err
	}
	// Hot-journal test (pagerOpenWalIfPresent / hasHotJournal): if a journal
	// exists and nobody holds RESERVED, SQLite looks at its first byte.
	if c.jf == nil && c.M.Exists(c.journalName()) && db.Img.N() > 0 {
		c.op("open journal (hot-journal test)")
		if jf, e := c.M.Open(c.Owner, c.journalName()); e == nil {
			b := make([]byte, 1)
			n, _ := jf.ReadAt(b, 0)
			if n == 1 && b[0] != 0 {
				c.HotJournalSeen = true
			}
			c.op("close journal (hot-journal test)")
			_ = jf.Close()
		}
	}
	if c.HotJournalSeen {
		// A new transaction cannot start over a hot journal: SQLite first plays it
		// back under the EXCLUSIVE lock and finalises it.
		c.HotJournalSeen = false
		if err = c.playbackHotJournal(); err != nil {
			return res, err
		}
	}
	if err = c.Lock(LockReserved); err != nil {
		return res, err
	}
	if tx.NoWrite {
		return res, nil
	}

	origSize := db.Img.N()
	hdrMode := ref.ModeRollback
	if db.pendingMode != 0 {
		hdrMode = db.pendingMode
	}
	newImg, dirty := db.buildImage(db.Img, tx, hdrMode)
	res.Pages = len(dirty)
	res.Attempt = newImg
	noSync := c.Sync == SyncOff
	nonce := 0x5eed0000 + db.Change

	// Order of modifications: the listed writes, then the appended filler
	// pages, page 1 last (the change counter is bumped at commit).
	var order []uint32
	seen := map[uint32]bool{}
	for _, w := range tx.Writes {
		if dirty[w.Pgno] && w.Pgno != 1 && !seen[w.Pgno] {
			order = append(order, w.Pgno)
			seen[w.Pgno] = true
		}
	}
	for p := uint32(2); p <= newImg.N(); p++ {
		if dirty[p] && !seen[p] {
			order = append(order, p)
			seen[p] = true
		}
	}
	order = append(order, 1)

	// Open the journal and write the first header.
	if c.jf == nil {
		// SQLite opens the journal with O_CREAT but without O_EXCL: an existing
		// file (a persistent or truncated journal, whatever the current mode) is reused
		if c.M.Exists(c.journalName()) {
			c.op("open journal")
			if c.jf, err = c.M.Open(c.Owner, c.journalName()); err != nil {
				return res, opErr("open journal", err)
			}
		} else {
			c.op("create journal")
			if c.jf, err = c.M.Create(c.Owner, c.journalName()); err != nil {
				return res, opErr("create journal", err)
			}
		}
	}
	jf := c.jf
	hdrOff := int64(0)
	joff := int64(0)
	writeHdr := func() error {
		// SQLite draws a fresh checksum nonce for every journal header: the records
		// of a segment are summed with the nonce of that segment's header
		if hdrOff > 0 {
			nonce = nonce*2654435761 + 0x7f4a7c15
		}
		h := c.journalHeader(nonce, origSize, noSync)
		for o := int64(0); o < c.hdrSize(); o += int64(len(h)) {
			c.op("write journal hdr @%d n=%d", hdrOff+o, len(h))
			if e := jf.WriteAt(h, hdrOff+o); e != nil {
				return opErr("write journal header", e)
			}
		}
		joff = hdrOff + c.hdrSize()
		return nil
	}
	if err = writeHdr(); err != nil {
		return res, err
	}
	res.Segments = 1
	nRec := uint32(0)
	journalled := map[uint32]bool{}
	dbModified := false // eState >= WRITER_DBMOD
	// Records whose segment header has been synced: (offset of record, pgno).
	type rec struct {
		off  int64
		pgno uint32
		seg  int64
	}
	var recs []rec
	syncedUpTo := int64(-1) // header offset of the last synced segment

	syncJournal := func() error {
		if noSync {
			return nil
		}
		// A persistent journal may be longer than what this transaction wrote. If
		// the next sector boundary happens to hold a header of an older
		// transaction, SQLite zeroes its first byte before publishing nRec so that
		// a hot-journal rollback cannot run on into stale segments (syncJournal()).
		if next := ((joff-1)/c.hdrSize() + 1) * c.hdrSize(); true {
			m := make([]byte, 8)
			if n, _ := jf.ReadAt(m, next); n == 8 && string(m) == string(journalMagic) {
				c.op("zero stale journal header @%d", next)
				if e := jf.WriteAt([]byte{0}, next); e != nil {
					return opErr("zero stale journal header", e)
				}
			}
		}
		b := make([]byte, 12)
		copy(b, journalMagic)
		binary.BigEndian.PutUint32(b[8:], nRec)
		c.op("write journal nRec=%d @%d", nRec, hdrOff)
		if e := jf.WriteAt(b, hdrOff); e != nil {
			return opErr("write journal nRec", e)
		}
		c.op("fsync journal")
		if e := jf.Sync(); e != nil {
			return opErr("fsync journal", e)
		}
		syncedUpTo = hdrOff
		return nil
	}

	ps := int64(db.PageSize)
	written := map[uint32]bool{} // pages written to the database file during this transaction
	writePage := func(p uint32) error {
		c.op("write db page %d", p)
		if e := c.dbf.WriteAt(newImg.Page(p), int64(p-1)*ps); e != nil {
			return opErr(fmt.Sprintf("write db page %d", p), e)
		}
		written[p] = true
		return nil
	}

	var modified []uint32
	busyAbort := false // a lock upgrade stayed busy: the application gives up and rolls back
	for i, p := range order {
		// Journal the original content of pages that existed before.
		if p <= origSize && !journalled[p] {
			orig := db.Img.Page(p)
			if orig == nil {
				orig = make([]byte, ps)
			}
			var b4 [4]byte
			binary.BigEndian.PutUint32(b4[:], p)
			c.op("write journal rec pgno=%d @%d", p, joff)
			if e := jf.WriteAt(b4[:], joff); e != nil {
				return res, opErr("write journal pgno", e)
			}
			if e := jf.WriteAt(orig, joff+4); e != nil {
				return res, opErr("write journal page", e)
			}
			binary.BigEndian.PutUint32(b4[:], journalCksum(nonce, orig))
			if e := jf.WriteAt(b4[:], joff+4+ps); e != nil {
				return res, opErr("write journal cksum", e)
			}
			recs = append(recs, rec{joff, p, hdrOff})
			joff += ps + 8
			nRec++
			journalled[p] = true
		}
		modified = append(modified, p)

		// Cache spill: not for page 1 (bumped at commit) and not after the last modification.
		if tx.SpillAfter > 0 && p != 1 && (i+1)%tx.SpillAfter == 0 && i+1 < len(order)-1 {
			if err = c.LockBusy(LockExclusive); err == ErrBusy {
				busyAbort = true
				break
			} else if err != nil {
				return res, err
			}
			if err = syncJournal(); err != nil {
				return res, err
			}
			for _, q := range modified {
				if q != 1 {
					if err = writePage(q); err != nil {
						return res, err
					}
				}
			}
			modified = modified[:0]
			dbModified = true
			res.Spilled++
			if !noSync {
				// a new segment header at the next sector boundary
				hdrOff = ((joff-1)/c.hdrSize() + 1) * c.hdrSize()
				nRec = 0
				if err = writeHdr(); err != nil {
					return res, err
				}
				res.Segments++
			}
		}
	}

	// commitModel runs at the instant the finalising operation of a COMMIT has
	// returned success: from then on SQLite (and its application) regards the
	// transaction as committed.
	commitModel := func(commit bool) {
		if !commit {
			return
		}
		res.Committed = true
		c.CommitReturned = true
		db.Img = newImg
		db.Change++
		db.Mode = hdrMode
		res.Image = newImg
	}
	finalise := func(commit bool) error {
		switch c.JournalMode {
		case Delete:
			c.op("close journal")
			_ = jf.Close()
			c.jf = nil
			c.op("unlink journal")
			if e := c.M.Remove(c.journalName()); e != nil {
				return opErr("unlink journal", e)
			}
			commitModel(commit)
		case Truncate:
			c.op("truncate journal 0")
			if e := jf.Truncate(0); e != nil {
				return opErr("truncate journal", e)
			}
			commitModel(commit)
		case Persist:
			c.op("zero journal header")
			if e := jf.WriteAt(make([]byte, 28), 0); e != nil {
				return opErr("zero journal header", e)
			}
			commitModel(commit)
			if !noSync {
				c.op("fsync journal")
				if e := jf.Sync(); e != nil {
					return opErr("fsync journal", e)
				}
			}
		}
		return nil
	}

	if !tx.Rollback && !busyAbort {
		if err = c.LockBusy(LockExclusive); err == ErrBusy {
			busyAbort = true
		} else if err != nil {
			return res, err
		}
	}
	if tx.Rollback || busyAbort {
		res.RolledBack = true
		if dbModified {
			// pager_playback: truncate to the original size, write back every
			// journalled page whose segment header was synced, fsync, finalise.
			if sz, e := c.dbf.Size(); e == nil && sz > int64(origSize)*ps {
				c.op("truncate db %d pages", origSize)
				if e := c.dbf.Truncate(int64(origSize) * ps); e != nil {
					return res, opErr("truncate db (rollback)", e)
				}
			}
			for _, r := range recs {
				if noSync || r.seg <= syncedUpTo {
					c.op("write db page %d (playback)", r.pgno)
					orig := db.Img.Page(r.pgno)
					if orig == nil {
						orig = make([]byte, ps)
					}
					if e := c.dbf.WriteAt(orig, int64(r.pgno-1)*ps); e != nil {
						return res, opErr("playback write", e)
					}
				}
			}
			if !noSync {
				c.op("fsync db")
				if e := c.dbf.Sync(); e != nil {
					return res, opErr("fsync db", e)
				}
			}
		}
		if err = finalise(false); err != nil {
			return res, err
		}
		if busyAbort {
			return res, ErrBusy
		}
		return res, nil
	}

	// COMMIT (EXCLUSIVE is held)
	if err = syncJournal(); err != nil {
		return res, err
	}
	var plist []uint32
	for _, q := range modified {
		plist = append(plist, q)
	}
	sortU32(plist)
	for _, q := range plist {
		if err = writePage(q); err != nil {
			return res, err
		}
	}
	if !noSync {
		c.op("fsync db")
		if e := c.dbf.Sync(); e != nil {
			return res, opErr("fsync db", e)
		}
	}
	if err = finalise(true); err != nil {
		return res, err
	}
	if newImg.N() < origSize {
		c.op("truncate db %d pages", newImg.N())
		if e := c.dbf.Truncate(int64(newImg.N()) * ps); e != nil {
			return res, opErr("truncate db (after commit)", e)
		}
	}
	return res, nil
}

func sortU32(a []uint32) {
	for i := 1; i < len(a); i++ {
		for j := i; j > 0 && a[j-1] > a[j]; j-- {
			a[j-1], a[j] = a[j], a[j-1]
		}
	}
}

// ReadImage reads the whole database the way a reader connection does in
// rollback mode: SHARED lock, file size, every page, unlock. It returns the
// image as the application sees it through the mount.
func (c *Conn) ReadImage() (*ref.Image, error) {
	if err := c.OpenDB(); err != nil {
		return nil, err
	}
	if err := c.Lock(LockShared); err != nil {
		return nil, err
	}
	defer func() { _ = c.Unlock(LockNone) }()
	return ReadFileImage(c.dbf, c.DB.PageSize)
}

// ReadFileImage reads every page of an open database file through the mount.
// The page size is taken from the header when pageSize is 0.
func ReadFileImage(f *mount.File, pageSize uint32) (*ref.Image, error) {
	size, err := f.Size()
	if err != nil {
		return nil, opErr("stat db", err)
	}
	if size == 0 {
		return ref.NewImage(pageSize), nil
	}
	if pageSize == 0 {
		hdr := make([]byte, 100)
		if n, err := f.ReadAt(hdr, 0); err != nil || n < 100 {
			return nil, fmt.Errorf("read header: n=%d err=%v", n, err)
		}
		if pageSize = ref.HeaderPageSize(hdr); pageSize == 0 {
			return nil, fmt.Errorf("no valid database header")
		}
	}
	img := ref.NewImage(pageSize)
	lock := ref.LockPgno(pageSize)
	for off := int64(0); off+int64(pageSize) <= size; off += int64(pageSize) {
		pgno := uint32(off/int64(pageSize)) + 1
		buf := make([]byte, pageSize)
		if pgno != lock {
			n, err := f.ReadAt(buf, off)
			if err != nil {
				return nil, opErr(fmt.Sprintf("read page %d", pgno), err)
			}
			if n != len(buf) {
				return nil, fmt.Errorf("short read of page %d: %d bytes", pgno, n)
			}
		}
		img.Pages = append(img.Pages, buf)
	}
	if size%int64(pageSize) != 0 {
		return img, fmt.Errorf("database file size %d is not a multiple of the page size %d", size, pageSize)
	}
	return img, nil
}

// playbackHotJournal is pager_playback for a hot journal found by a connection
// that did not write it: EXCLUSIVE lock, the database truncated to the recorded
// original size, every record of every synced segment written back, fsync, the
// journal finalised in the connection's journal mode, back to SHARED.
func (c *Conn) playbackHotJournal() error {
	if err := c.LockBusy(LockExclusive); err != nil {
		return err
	}
	defer func() { _ = c.Unlock(LockShared) }()
	c.op("open journal (hot)")
	jf, err := c.M.Open(c.Owner, c.journalName())
	if err != nil {
		return nil // it vanished: somebody else rolled it back
	}
	closed := false
	defer func() {
		if !closed {
			_ = jf.Close()
		}
	}()
	size, _ := jf.Size()
	b := make([]byte, size)
	n, _ := jf.ReadAt(b, 0)
	b = b[:n]
	ps := int64(c.DB.PageSize)
	var sector int64
	first := true
	for off := int64(0); off+28 <= int64(len(b)); {
		h := b[off:]
		if string(h[:8]) != string(journalMagic) {
			break
		}
		nRec := binary.BigEndian.Uint32(h[8:])
		nonce := binary.BigEndian.Uint32(h[12:])
		orig := binary.BigEndian.Uint32(h[16:])
		if first {
			sector = int64(binary.BigEndian.Uint32(h[20:]))
			if sector < 32 || sector > 65536 {
				break
			}
			if fsz, e := c.dbf.Size(); e == nil && fsz > int64(orig)*ps {
				c.op("truncate db %d pages (hot journal)", orig)
				if e := c.dbf.Truncate(int64(orig) * ps); e != nil {
					return opErr("truncate db (hot journal)", e)
				}
			}
			first = false
		}
		off += sector
		if nRec == 0xffffffff {
			nRec = uint32((int64(len(b)) - off) / (ps + 8))
		}
		done := false
		for i := uint32(0); i < nRec; i++ {
			if off+ps+8 > int64(len(b)) {
				done = true
				break
			}
			pgno := binary.BigEndian.Uint32(b[off:])
			data := b[off+4 : off+4+ps]
			if pgno == 0 || binary.BigEndian.Uint32(b[off+4+ps:]) != journalCksum(nonce, data) {
				done = true
				break
			}
			c.op("write db page %d (hot journal)", pgno)
			if e := c.dbf.WriteAt(data, int64(pgno-1)*ps); e != nil {
				return opErr("hot journal playback write", e)
			}
			off += ps + 8
		}
		if done {
			break
		}
		off = ((off-1)/sector + 1) * sector
	}
	if c.Sync != SyncOff {
		c.op("fsync db")
		_ = c.dbf.Sync()
	}
	switch c.JournalMode {
	case Truncate:
		c.op("truncate journal 0 (hot)")
		if e := jf.Truncate(0); e != nil {
			return opErr("truncate journal (hot)", e)
		}
	case Persist:
		c.op("zero journal header (hot)")
		if e := jf.WriteAt(make([]byte, 28), 0); e != nil {
			return opErr("zero journal header (hot)", e)
		}
	default:
		closed = true
		_ = jf.Close()
		c.op("unlink journal (hot)")
		if e := c.M.Remove(c.journalName()); e != nil {
			return opErr("unlink journal (hot)", e)
		}
	}
	return nil
}

// RollbackFailedCommit does what SQLite does when the finalising step of a COMMIT
// returns an error: it plays the journal it still has back into the database
// (pager_playback: truncate to the original size - zero pages for a database that
// did not exist -, restore the journalled pages) and finalises the journal.
func (c *Conn) RollbackFailedCommit() error {
	if err := c.OpenDB(); err != nil {
		return err
	}
	defer func() {
		_ = c.Unlock(LockShared)
		if c.jf != nil {
			_ = c.jf.Close()
			c.jf = nil
		}
		_ = c.Unlock(LockNone)
	}()
	if err := c.Lock(LockShared); err != nil {
		return err
	}
	if !c.M.Exists(c.journalName()) {
		return nil
	}
	if err := c.Lock(LockReserved); err != nil {
		return err
	}
	return c.playbackHotJournal()
}
