package node

import (
	"encoding/binary"
	"fmt"
	"strings"
	"syscall"

	"github.com/superfly/litefs/verif/mount"
	"github.com/superfly/litefs/verif/pager"
	"github.com/superfly/litefs/verif/ref"
)

// ReadResult is what an application sees of one database on one node.
type ReadResult struct {
	Exists  bool
	Pos     ref.Pos // DB.Pos() read under the read lock
	PosFile string  // contents of the <db>-pos file read through the mount
	Image   *ref.Image
	WALMode bool
	SHMPageN, SHMMxFrame uint32
	HaveSHM bool
	// Created lists the files ("shm", "wal") this reader itself had to create,
	// as a SQLite connection opening a WAL-mode database does.
	Created []string
	// HotJournal: a rollback journal with a valid header exists next to the database.
	// A SQLite reader would have to play it back before it could read anything.
	HotJournal bool
}

// ReadDB takes the read lock SQLite would take on this node's copy of db, reads
// the position, the file size and every page through the mount (and its
// simulated cache), and releases the lock. ErrBusy means a writer holds the
// lock right now.
func (n *Node) ReadDB(owner uint64, db string, under func()) (res ReadResult, err error) {
	m := n.M
	var f *mount.File
	for try := 0; ; try++ {
		// No lock can be held on a file that does not exist: pair "absent" with a
		// position only if the position did not move around the failed open.
		p0 := n.Pos(db)
		var e error
		if f, e = m.Open(owner, db); e == nil {
			break
		}
		if mount.Errno(e) != syscall.ENOENT {
			return res, fmt.Errorf("open %s: %w", db, e)
		}
		if p1 := n.Pos(db); p0 == p1 || try > 100 {
			res.Pos = p1
			return res, nil
		}
	}
	var e error
	defer f.Close()
	res.Exists = true
	// SHARED lock on the database file (PENDING, SHARED range, release PENDING).
	const pending, sharedFirst, sharedSize = 0x40000000, 0x40000002, 510
	if e := f.SetLk(mount.RdLck, pending, pending); e != nil {
		return res, pager.ErrBusy
	}
	e = f.SetLk(mount.RdLck, sharedFirst, sharedFirst+sharedSize-1)
	_ = f.SetLk(mount.UnLck, pending, pending)
	if e != nil {
		return res, pager.ErrBusy
	}
	hdr := make([]byte, 100)
	hn, _ := f.ReadAt(hdr, 0)
	pageSize := uint32(0)
	if hn == 100 {
		pageSize = ref.HeaderPageSize(hdr)
		res.WALMode = hdr[18] == 2
	}
	var shm, wal *mount.File
	if res.WALMode {
		// A WAL-mode reader holds a READ lock on the shared-memory file.
		var made bool
		if shm, made, e = m.OpenOrCreate(owner, db+"-shm"); e != nil {
			return res, fmt.Errorf("open shm: %w", e)
		} else if made {
			res.Created = append(res.Created, "shm")
		}
		defer shm.Close()
		if wal, made, e = m.OpenOrCreate(owner, db+"-wal"); e != nil {
			return res, fmt.Errorf("open wal: %w", e)
		} else if made {
			res.Created = append(res.Created, "wal")
		}
		defer wal.Close()
		slot := uint64(123)
		if sz, _ := wal.Size(); sz > 0 {
			slot = 124
		}
		if e := shm.SetLk(mount.RdLck, slot, slot); e != nil {
			return res, pager.ErrBusy
		}
	}

	if !res.WALMode {
		if jf, e := m.Open(owner, db+"-journal"); e == nil {
			magic := make([]byte, 8)
			if k, _ := jf.ReadAt(magic, 0); k == 8 && string(magic) == "\xd9\xd5\x05\xf9\x20\xa1\x63\xd7" {
				res.HotJournal = true
			}
			_ = jf.Close()
		}
		if res.HotJournal {
			// SQLite never reads past a hot journal: it first plays it back (which only a
			// node with write authority allows) or fails. Either way this reader, which
			// writes nothing, has nothing to observe right now.
			return res, pager.ErrBusy
		}
	}
	res.Pos = n.Pos(db)
	if pf, e := m.Open(owner, db+"-pos"); e == nil {
		buf := make([]byte, 64)
		k, _ := pf.ReadAt(buf, 0)
		res.PosFile = strings.TrimSpace(string(buf[:k]))
		_ = pf.Close()
	}
	if res.Image, e = pager.ReadFileImage(f, pageSize); e != nil {
		return res, e
	}
	if res.WALMode {
		sz, _ := wal.Size()
		raw := make([]byte, sz)
		k, _ := wal.ReadAt(raw, 0)
		scan := ref.WALScan(raw[:k])
		if scan.HeaderOK && scan.LastCommit > 0 && scan.PageSize == pageSize {
			res.Image = scan.Overlay(res.Image)
		}
		sh := make([]byte, 136)
		if k, _ := shm.ReadAt(sh, 0); k >= 48 && sh[12] == 1 { // isInit: an all-zero header makes SQLite recover from the log instead
			res.HaveSHM = true
			res.SHMMxFrame = binary.LittleEndian.Uint32(sh[16:])
			res.SHMPageN = binary.LittleEndian.Uint32(sh[20:])
		}
	} else if n := ref.HeaderPageN(res.Image.Page(1)); n > 0 && n < res.Image.N() {
		// between a shrinking commit and SQLite's truncate the file is longer than the database
		res.Image.Resize(n)
	}
	if under != nil {
		under()
	}
	return res, nil
}

