// Package node builds single LiteFS nodes (a Store plus an in-process mount)
// on scratch directories.
package node

import (
	"context"
	"fmt"
	"io"
	"log"
	"os"
	"path/filepath"
	"sync"
	"time"

	"github.com/superfly/litefs"
	"github.com/superfly/litefs/verif/mount"
	"github.com/superfly/litefs/verif/ref"
)

// Node is one LiteFS instance.
type Node struct {
	Dir   string
	Store *litefs.Store
	M     *mount.Mount

	mu    sync.Mutex
	exits []int

	// OnExit, if set, is called synchronously inside Store.Exit, i.e. at the
	// instant the real process would be gone (used to freeze a copy of the data
	// directory: whatever the zombie does afterwards never happened).
	OnExit func(code int)
}

// Options configure a node before it is opened.
type Options struct {
	Candidate bool
	Leaser    litefs.Leaser
	Client    litefs.Client
	Compress  bool
	Configure func(s *litefs.Store)
}

// New creates (but does not open) a node on dir.
func New(dir string, o Options) *Node {
	s := litefs.NewStore(dir, o.Candidate)
	s.Leaser = o.Leaser
	s.Client = o.Client
	s.Compress = o.Compress
	s.RetentionMonitorInterval = 0 // retention runs only when a plan says so
	s.HaltLockMonitorInterval = time.Hour
	s.ReconnectDelay = 2 * time.Millisecond
	s.DemoteDelay = 5 * time.Millisecond
	n := &Node{Dir: dir, Store: s}
	s.Exit = func(code int) {
		n.mu.Lock()
		n.exits = append(n.exits, code)
		fn := n.OnExit
		n.mu.Unlock()
		if fn != nil {
			fn(code)
		}
	}
	if o.Configure != nil {
		o.Configure(s)
	}
	n.M = mount.New(s)
	return n
}

// NewPrimary opens a single static primary on dir and waits until it holds
// the lease.
func NewPrimary(dir string, o Options) (*Node, error) {
	o.Candidate = true
	if o.Leaser == nil {
		o.Leaser = litefs.NewStaticLeaser(true, "localhost", "http://localhost:20202")
	}
	n := New(dir, o)
	if err := n.Store.Open(); err != nil {
		return nil, err
	}
	if err := n.WaitPrimary(10 * time.Second); err != nil {
		_ = n.Close()
		return nil, err
	}
	return n, nil
}

// WaitPrimary waits for the node to report itself primary.
func (n *Node) WaitPrimary(d time.Duration) error {
	deadline := time.Now().Add(d)
	for !n.Store.IsPrimary() {
		if time.Now().After(deadline) {
			return fmt.Errorf("node did not become primary within %s", d)
		}
		time.Sleep(50 * time.Microsecond)
	}
	return nil
}

// WaitReady waits for the store's ready channel.
func (n *Node) WaitReady(d time.Duration) error {
	select {
	case <-n.Store.ReadyCh():
		return nil
	case <-time.After(d):
		return fmt.Errorf("node not ready within %s", d)
	}
}

// Close stops the store.
func (n *Node) Close() error { return n.Store.Close() }

// Exits returns the exit codes Store.Exit was called with.
func (n *Node) Exits() []int {
	n.mu.Lock()
	defer n.mu.Unlock()
	return append([]int(nil), n.exits...)
}

// DBDir returns the data directory of one database.
func (n *Node) DBDir(name string) string { return filepath.Join(n.Dir, "dbs", name) }

// LTXDir returns the transaction-file directory of one database.
func (n *Node) LTXDir(name string) string { return filepath.Join(n.Dir, "dbs", name, "ltx") }

// Pos returns the position the node reports for a database (zero if unknown).
func (n *Node) Pos(name string) ref.Pos {
	db := n.Store.DB(name)
	if db == nil {
		return ref.Pos{}
	}
	return ref.PosOf(db.Pos())
}

// Monitors evaluates the C04 and C09 predicates for one database at a
// quiescent point; it returns a finding signature suffix and message, or "".
func (n *Node) Monitors(name string) (sig, msg string) {
	pos := n.Pos(name)
	if n.Store.DB(name) == nil {
		return "", ""
	}
	sum, err := ref.ScratchChecksum(n.DBDir(name))
	if err != nil {
		return "C04/scratch-unreadable", fmt.Sprintf("cannot recompute checksum of %q: %v", name, err)
	}
	want := pos.Checksum
	if pos.TXID == 0 && want == 0 {
		want = ref.ChecksumFlag // never had a transaction: zero position, empty database
	}
	if sum != want {
		return "C04/checksum-mismatch", fmt.Sprintf("database %q reports position %s but the checksum recomputed from the files is %016x", name, pos, sum)
	}
	if err := ref.ChainCheck(n.LTXDir(name), pos); err != nil {
		return "C09/chain-broken", fmt.Sprintf("database %q: %v", name, err)
	}
	return "", ""
}

var _ = context.Background

func init() {
	// LiteFS logs through the standard logger; keep test output readable unless asked.
	if os.Getenv("VERIF_LOG") == "" {
		log.SetOutput(io.Discard)
	}
	if os.Getenv("VERIF_TRACE") != "" {
		litefs.TraceLog.SetOutput(os.Stderr)
	}
}
