package ref

import (
	"encoding/binary"
	"fmt"
	"os"
	"path/filepath"
)

// WAL constants from the SQLite file format.
const (
	WALHeaderSize      = 32
	WALFrameHeaderSize = 24
	WALMagicLE         = 0x377f0682
	WALMagicBE         = 0x377f0683
	WALVersion         = 3007000
)

// WALFrame is one frame of a write-ahead log.
type WALFrame struct {
	Index  int    // 0-based frame index
	Offset int64  // file offset of the frame header
	Pgno   uint32 // page number
	Commit uint32 // database size after commit, 0 if not a commit frame
	Data   []byte
}

// WALScanResult is what an independent reading of the SQLite WAL validity rules
// yields for a byte string.
type WALScanResult struct {
	HeaderOK   bool
	Reason     string // why the header was rejected, if it was
	BigEndian  bool
	PageSize   uint32
	Salt1      uint32
	Salt2      uint32
	Valid      []WALFrame // longest valid prefix: salts equal the header's, cumulative checksum matches
	LastCommit int        // number of frames up to and including the last commit frame in Valid (0 if none)
	Cksum1     uint32     // running checksum after the last valid frame
	Cksum2     uint32
}

func walChecksum(be bool, s0, s1 uint32, b []byte) (uint32, uint32) {
	for i := 0; i+8 <= len(b); i += 8 {
		var x0, x1 uint32
		if be {
			x0, x1 = binary.BigEndian.Uint32(b[i:]), binary.BigEndian.Uint32(b[i+4:])
		} else {
			x0, x1 = binary.LittleEndian.Uint32(b[i:]), binary.LittleEndian.Uint32(b[i+4:])
		}
		s0 += x0 + s1
		s1 += x1 + s0
	}
	return s0, s1
}

// WALChecksum exposes the checksum step for writers of test logs.
func WALChecksum(be bool, s0, s1 uint32, b []byte) (uint32, uint32) { return walChecksum(be, s0, s1, b) }

// WALScan applies the validity rules of the SQLite WAL format (file-format
// document, section 4.1-4.3) to b: the header must carry the magic, the
// supported version and a checksum over its first 24 bytes; a frame is valid
// iff its salts equal the header's and its checksum equals the cumulative
// checksum of the header and all frames up to and including itself; the log
// ends at the first invalid frame.
func WALScan(b []byte) WALScanResult {
	var r WALScanResult
	if len(b) < WALHeaderSize {
		r.Reason = "short header"
		return r
	}
	magic := binary.BigEndian.Uint32(b[0:])
	switch magic {
	case WALMagicLE:
	case WALMagicBE:
		r.BigEndian = true
	default:
		r.Reason = "bad magic"
		return r
	}
	c1, c2 := walChecksum(r.BigEndian, 0, 0, b[:24])
	if c1 != binary.BigEndian.Uint32(b[24:]) || c2 != binary.BigEndian.Uint32(b[28:]) {
		r.Reason = "header checksum"
		return r
	}
	if binary.BigEndian.Uint32(b[4:]) != WALVersion {
		r.Reason = "version"
		return r
	}
	r.PageSize = binary.BigEndian.Uint32(b[8:])
	if r.PageSize < 512 || r.PageSize > 65536 || r.PageSize&(r.PageSize-1) != 0 {
		r.Reason = "page size"
		return r
	}
	r.HeaderOK = true
	r.Salt1, r.Salt2 = binary.BigEndian.Uint32(b[16:]), binary.BigEndian.Uint32(b[20:])
	r.Cksum1, r.Cksum2 = c1, c2

	frameSize := int64(WALFrameHeaderSize) + int64(r.PageSize)
	for off, i := int64(WALHeaderSize), 0; off+frameSize <= int64(len(b)); off, i = off+frameSize, i+1 {
		h := b[off : off+WALFrameHeaderSize]
		data := b[off+WALFrameHeaderSize : off+frameSize]
		if binary.BigEndian.Uint32(h[8:]) != r.Salt1 || binary.BigEndian.Uint32(h[12:]) != r.Salt2 {
			break
		}
		n1, n2 := walChecksum(r.BigEndian, r.Cksum1, r.Cksum2, h[:8])
		n1, n2 = walChecksum(r.BigEndian, n1, n2, data)
		if n1 != binary.BigEndian.Uint32(h[16:]) || n2 != binary.BigEndian.Uint32(h[20:]) {
			break
		}
		pgno := binary.BigEndian.Uint32(h[0:])
		if pgno == 0 {
			break
		}
		r.Cksum1, r.Cksum2 = n1, n2
		f := WALFrame{Index: i, Offset: off, Pgno: pgno, Commit: binary.BigEndian.Uint32(h[4:]), Data: data}
		r.Valid = append(r.Valid, f)
		if f.Commit != 0 {
			r.LastCommit = len(r.Valid)
		}
	}
	return r
}

// Overlay applies the committed frames of the scan (those up to the last
// commit frame) onto base and returns the resulting logical image.
func (r WALScanResult) Overlay(base *Image) *Image {
	out := base.Clone()
	if r.LastCommit == 0 {
		return out
	}
	if out == nil {
		out = NewImage(r.PageSize)
	}
	var size uint32
	for _, f := range r.Valid[:r.LastCommit] {
		out.Set(f.Pgno, f.Data)
		if f.Commit != 0 {
			size = f.Commit
		}
	}
	out.Resize(size)
	return out
}

// LogicalImage reads the raw files of one database directory
// (dbs/<name>/database and dbs/<name>/wal) and returns the logical image: the
// database file overlaid with the committed frames of the WAL. The size is the
// last commit frame's size field when the WAL holds a commit, otherwise the
// in-header page count of page 1 bounded by what the file holds. A missing or
// empty database yields an empty image.
func LogicalImage(dbDir string) (*Image, error) {
	raw, err := os.ReadFile(filepath.Join(dbDir, "database"))
	if os.IsNotExist(err) {
		raw = nil
	} else if err != nil {
		return nil, err
	}
	wal, err := os.ReadFile(filepath.Join(dbDir, "wal"))
	if err != nil && !os.IsNotExist(err) {
		return nil, err
	}
	var pageSize uint32
	if len(raw) >= 100 {
		pageSize = HeaderPageSize(raw[:100])
	}
	scan := WALScan(wal)
	if pageSize == 0 && scan.HeaderOK && scan.LastCommit > 0 {
		pageSize = scan.PageSize
	}
	if pageSize == 0 {
		if len(raw) == 0 {
			return NewImage(0), nil
		}
		return nil, fmt.Errorf("database file of %d bytes has no valid header", len(raw))
	}
	base := ImageFromBytes(pageSize, raw)
	if scan.HeaderOK && scan.PageSize == pageSize && scan.LastCommit > 0 {
		return scan.Overlay(base), nil
	}
	// Rollback mode (or empty WAL): the in-header size is the logical size; the
	// file may still be longer right after a shrinking commit.
	if n := HeaderPageN(base.Page(1)); n > 0 && n < base.N() {
		base.Resize(n)
	}
	return base, nil
}

// ScratchChecksum is the C04 predicate's right-hand side: the checksum
// recomputed from nothing over the current logical pages of a database
// directory.
func ScratchChecksum(dbDir string) (uint64, error) {
	im, err := LogicalImage(dbDir)
	if err != nil {
		return 0, err
	}
	return im.Checksum(), nil
}

// ---- building logs (used by the pager simulator and the C17 generators) -------

// WALHeader encodes a WAL header.
func WALHeader(be bool, pageSize, seq, salt1, salt2 uint32) []byte {
	h := make([]byte, WALHeaderSize)
	if be {
		binary.BigEndian.PutUint32(h[0:], WALMagicBE)
	} else {
		binary.BigEndian.PutUint32(h[0:], WALMagicLE)
	}
	binary.BigEndian.PutUint32(h[4:], WALVersion)
	binary.BigEndian.PutUint32(h[8:], pageSize)
	binary.BigEndian.PutUint32(h[12:], seq)
	binary.BigEndian.PutUint32(h[16:], salt1)
	binary.BigEndian.PutUint32(h[20:], salt2)
	c1, c2 := walChecksum(be, 0, 0, h[:24])
	binary.BigEndian.PutUint32(h[24:], c1)
	binary.BigEndian.PutUint32(h[28:], c2)
	return h
}

// WALFrameHeader encodes a frame header given the running checksum before the
// frame; it returns the header and the running checksum after the frame.
func WALFrameHeader(be bool, pgno, commit, salt1, salt2, c1, c2 uint32, data []byte) ([]byte, uint32, uint32) {
	h := make([]byte, WALFrameHeaderSize)
	binary.BigEndian.PutUint32(h[0:], pgno)
	binary.BigEndian.PutUint32(h[4:], commit)
	binary.BigEndian.PutUint32(h[8:], salt1)
	binary.BigEndian.PutUint32(h[12:], salt2)
	c1, c2 = walChecksum(be, c1, c2, h[:8])
	c1, c2 = walChecksum(be, c1, c2, data)
	binary.BigEndian.PutUint32(h[16:], c1)
	binary.BigEndian.PutUint32(h[20:], c2)
	return h, c1, c2
}
