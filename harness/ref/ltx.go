package ref

import (
	"fmt"
	"io"
	"os"
	"path/filepath"
	"sort"
	"strings"

	"github.com/superfly/ltx"
)

// LTXFile is a fully decoded transaction file.
type LTXFile struct {
	Path    string
	Header  ltx.Header
	Trailer ltx.Trailer
	Order   []uint32          // page numbers in file order
	Pages   map[uint32][]byte // page images
}

// DecodeLTX decodes and verifies an LTX stream with the ltx library decoder
// (third-party, trusted): header, every page, trailer and file checksum.
func DecodeLTX(r io.Reader) (*LTXFile, error) {
	dec := ltx.NewDecoder(r)
	if err := dec.DecodeHeader(); err != nil {
		return nil, fmt.Errorf("decode header: %w", err)
	}
	f := &LTXFile{Header: dec.Header(), Pages: map[uint32][]byte{}}
	for {
		var ph ltx.PageHeader
		buf := make([]byte, f.Header.PageSize)
		if err := dec.DecodePage(&ph, buf); err == io.EOF {
			break
		} else if err != nil {
			return nil, fmt.Errorf("decode page: %w", err)
		}
		f.Order = append(f.Order, ph.Pgno)
		f.Pages[ph.Pgno] = buf
	}
	if err := dec.Close(); err != nil {
		return nil, fmt.Errorf("close (file checksum): %w", err)
	}
	f.Trailer = dec.Trailer()
	return f, nil
}

// DecodeLTXFile decodes the file at path.
func DecodeLTXFile(path string) (*LTXFile, error) {
	fh, err := os.Open(path)
	if err != nil {
		return nil, err
	}
	defer fh.Close()
	f, err := DecodeLTX(fh)
	if err != nil {
		return nil, fmt.Errorf("%s: %w", filepath.Base(path), err)
	}
	f.Path = path
	return f, nil
}

// Apply overwrites the pages of the file onto the image and resizes it to the
// file's commit size. A snapshot (MinTXID 1) replaces the image.
func (im *Image) Apply(f *LTXFile) *Image {
	out := im.Clone()
	if out == nil || f.Header.MinTXID == 1 {
		out = NewImage(f.Header.PageSize)
	}
	if out.PageSize == 0 {
		out.PageSize = f.Header.PageSize
	}
	for pgno, data := range f.Pages {
		out.Set(pgno, data)
	}
	out.Resize(f.Header.Commit)
	return out
}

// Pos is a replication position.
type Pos struct {
	TXID     uint64
	Checksum uint64
}

func (p Pos) String() string { return fmt.Sprintf("%016x/%016x", p.TXID, p.Checksum) }

// PosOf converts an ltx position.
func PosOf(p ltx.Pos) Pos { return Pos{uint64(p.TXID), uint64(p.PostApplyChecksum)} }

// LTXName describes one directory entry of an ltx directory.
type LTXName struct {
	Name     string
	Min, Max uint64
}

// ListLTXDir returns the parseable transaction files of dir sorted by name,
// and the names of every other entry.
func ListLTXDir(dir string) (files []LTXName, other []string, err error) {
	ents, err := os.ReadDir(dir)
	if os.IsNotExist(err) {
		return nil, nil, nil
	} else if err != nil {
		return nil, nil, err
	}
	for _, e := range ents {
		min, max, perr := ltx.ParseFilename(e.Name())
		if perr != nil || !strings.HasSuffix(e.Name(), ".ltx") {
			other = append(other, e.Name())
			continue
		}
		files = append(files, LTXName{e.Name(), uint64(min), uint64(max)})
	}
	sort.Slice(files, func(i, j int) bool { return files[i].Name < files[j].Name })
	return files, other, nil
}

// ChainCheck is the C09 predicate over one database's ltx directory: names
// parse and sort, consecutive files are contiguous (Min = prevMax+1, Pre =
// prevPost), every file passes its integrity check, and the last file ends at
// pos. An empty directory is accepted only for the zero position.
func ChainCheck(dir string, pos Pos) error {
	files, _, err := ListLTXDir(dir)
	if err != nil {
		return err
	}
	if len(files) == 0 {
		if pos.TXID != 0 {
			return fmt.Errorf("no transaction files but position is %s", pos)
		}
		return nil
	}
	var prev *LTXFile
	for _, n := range files {
		f, err := DecodeLTXFile(filepath.Join(dir, n.Name))
		if err != nil {
			return fmt.Errorf("file does not verify: %w", err)
		}
		if uint64(f.Header.MinTXID) != n.Min || uint64(f.Header.MaxTXID) != n.Max {
			return fmt.Errorf("%s: header txid range %d-%d does not match its name", n.Name, f.Header.MinTXID, f.Header.MaxTXID)
		}
		if prev != nil {
			if f.Header.MinTXID != prev.Header.MaxTXID+1 {
				return fmt.Errorf("%s: min txid %d does not follow previous max txid %d", n.Name, f.Header.MinTXID, prev.Header.MaxTXID)
			}
			if f.Header.PreApplyChecksum != prev.Trailer.PostApplyChecksum {
				return fmt.Errorf("%s: pre-apply checksum %016x != previous post-apply checksum %016x", n.Name, uint64(f.Header.PreApplyChecksum), uint64(prev.Trailer.PostApplyChecksum))
			}
		}
		prev = f
	}
	if last := (Pos{uint64(prev.Header.MaxTXID), uint64(prev.Trailer.PostApplyChecksum)}); last != pos {
		return fmt.Errorf("chain ends at %s but database position is %s", last, pos)
	}
	return nil
}
