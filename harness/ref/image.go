// Package ref is the independent reference model used as the oracle by the
// property checks: logical database images, the LTX checksum written from its
// definition with the standard library only, SQLite WAL and rollback-journal
// validity rules written from the file-format documentation, and a history of
// what writers committed.
package ref

import (
	"bytes"
	"encoding/binary"
	"fmt"
	"hash/crc64"
)

// ChecksumFlag is the top bit, always set on LTX checksums.
const ChecksumFlag = uint64(1) << 63

var crcTable = crc64.MakeTable(crc64.ISO)

// PendingByte is the offset of SQLite's lock page.
const PendingByte = 0x40000000

// LockPgno returns the page number of the page containing the pending byte.
func LockPgno(pageSize uint32) uint32 { return uint32(PendingByte/int64(pageSize)) + 1 }

// PageChecksum is CRC64-ISO over the big-endian page number followed by the
// page bytes, with the top bit set.
func PageChecksum(pgno uint32, data []byte) uint64 {
	var b [4]byte
	binary.BigEndian.PutUint32(b[:], pgno)
	crc := crc64.Update(0, crcTable, b[:])
	crc = crc64.Update(crc, crcTable, data)
	return ChecksumFlag | crc
}

// Image is a logical database: Pages[i] holds page i+1. A nil page has never
// been written (only legal for the lock page).
type Image struct {
	PageSize uint32
	Pages    [][]byte
}

// NewImage returns an empty image.
func NewImage(pageSize uint32) *Image { return &Image{PageSize: pageSize} }

// N returns the number of pages.
func (im *Image) N() uint32 {
	if im == nil {
		return 0
	}
	return uint32(len(im.Pages))
}

// Clone returns a deep-enough copy (page slices are treated as immutable).
func (im *Image) Clone() *Image {
	if im == nil {
		return nil
	}
	return &Image{PageSize: im.PageSize, Pages: append([][]byte(nil), im.Pages...)}
}

// Page returns page pgno or nil.
func (im *Image) Page(pgno uint32) []byte {
	if pgno == 0 || pgno > im.N() {
		return nil
	}
	return im.Pages[pgno-1]
}

// Set stores a page, growing the image if needed.
func (im *Image) Set(pgno uint32, data []byte) {
	for uint32(len(im.Pages)) < pgno {
		im.Pages = append(im.Pages, nil)
	}
	im.Pages[pgno-1] = data
}

// Resize truncates or extends (with unwritten pages) to n pages.
func (im *Image) Resize(n uint32) {
	if n <= uint32(len(im.Pages)) {
		im.Pages = im.Pages[:n:n]
		return
	}
	for uint32(len(im.Pages)) < n {
		im.Pages = append(im.Pages, nil)
	}
}

// Checksum computes the LTX database checksum from nothing: the XOR over all
// pages except the lock page of PageChecksum, with the top bit set. An empty
// image has exactly the flag.
func (im *Image) Checksum() uint64 {
	if im == nil || len(im.Pages) == 0 {
		return ChecksumFlag
	}
	lock := LockPgno(im.PageSize)
	var sum uint64
	for i, p := range im.Pages {
		pgno := uint32(i + 1)
		if pgno == lock {
			continue
		}
		if p == nil {
			p = make([]byte, im.PageSize) // a hole reads back as zeros
		}
		sum ^= PageChecksum(pgno, p)
	}
	return ChecksumFlag | sum
}

// Equal compares two images page by page, ignoring the lock page. It returns a
// description of the first difference or "".
func (im *Image) Diff(other *Image) string {
	if im.N() != other.N() {
		return fmt.Sprintf("size %d pages vs %d pages", im.N(), other.N())
	}
	if im.N() == 0 {
		return ""
	}
	if im.PageSize != other.PageSize {
		return fmt.Sprintf("page size %d vs %d", im.PageSize, other.PageSize)
	}
	lock := LockPgno(im.PageSize)
	zero := make([]byte, im.PageSize)
	for i := range im.Pages {
		if uint32(i+1) == lock {
			continue
		}
		a, b := im.Pages[i], other.Pages[i]
		if a == nil {
			a = zero
		}
		if b == nil {
			b = zero
		}
		if !bytes.Equal(a, b) {
			return fmt.Sprintf("page %d differs (%s vs %s)", i+1, DescribePage(a), DescribePage(b))
		}
	}
	return ""
}

// Bytes serialises the image as a database file (holes as zeros).
func (im *Image) Bytes() []byte {
	out := make([]byte, 0, int(im.N())*int(im.PageSize))
	zero := make([]byte, im.PageSize)
	for _, p := range im.Pages {
		if p == nil {
			p = zero
		}
		out = append(out, p...)
	}
	return out
}

// ImageFromBytes splits a database file into pages.
func ImageFromBytes(pageSize uint32, b []byte) *Image {
	im := NewImage(pageSize)
	for off := 0; off+int(pageSize) <= len(b); off += int(pageSize) {
		im.Pages = append(im.Pages, b[off:off+int(pageSize):off+int(pageSize)])
	}
	return im
}

// ---- deterministic page content ----------------------------------------------

const (
	ModeRollback = 1
	ModeWAL      = 2
)

// MakePage returns deterministic content for a non-header page: a tag that
// identifies (pgno, version) followed by a repeating pattern derived from it.
// The content is a pure function of its arguments.
func MakePage(pageSize, pgno, version uint32, fill byte) []byte {
	p := make([]byte, pageSize)
	binary.BigEndian.PutUint32(p[0:], 0x0d000000) // looks like a leaf table page
	binary.BigEndian.PutUint32(p[4:], pgno)
	binary.BigEndian.PutUint32(p[8:], version)
	p[12] = fill
	x := uint32(pgno)*2654435761 ^ version*40503 ^ uint32(fill)<<16 | 1
	for i := 16; i < len(p); i++ {
		if i%64 < 8 { // a few pseudo-random bytes, the rest compressible
			x ^= x << 13
			x ^= x >> 17
			x ^= x << 5
			p[i] = byte(x)
		} else {
			p[i] = fill
		}
	}
	return p
}

// MakeHeaderPage returns page 1: a valid SQLite database header carrying the
// page size, journal mode (read/write version), change counter and database
// size, followed by deterministic content.
func MakeHeaderPage(pageSize uint32, mode int, changeCounter, pageN, version uint32, fill byte) []byte {
	p := MakePage(pageSize, 1, version, fill)
	copy(p, "SQLite format 3\x00")
	if pageSize == 65536 {
		binary.BigEndian.PutUint16(p[16:], 1)
	} else {
		binary.BigEndian.PutUint16(p[16:], uint16(pageSize))
	}
	p[18], p[19] = byte(mode), byte(mode)
	p[20], p[21], p[22], p[23] = 0, 64, 32, 32
	binary.BigEndian.PutUint32(p[24:], changeCounter)
	binary.BigEndian.PutUint32(p[28:], pageN)
	for i := 32; i < 100; i++ {
		p[i] = 0
	}
	binary.BigEndian.PutUint32(p[40:], 1+version) // schema cookie
	binary.BigEndian.PutUint32(p[44:], 4)         // schema format
	binary.BigEndian.PutUint32(p[56:], 1)         // utf-8
	binary.BigEndian.PutUint32(p[92:], changeCounter)
	binary.BigEndian.PutUint32(p[96:], 3039002)
	return p
}

// HeaderPageN reads the in-header database size of a page-1 image.
func HeaderPageN(page1 []byte) uint32 {
	if len(page1) < 100 {
		return 0
	}
	return binary.BigEndian.Uint32(page1[28:])
}

// HeaderPageSize reads the page size of a page-1 image (0 if not a header).
func HeaderPageSize(page1 []byte) uint32 {
	if len(page1) < 100 || string(page1[:16]) != "SQLite format 3\x00" {
		return 0
	}
	v := uint32(binary.BigEndian.Uint16(page1[16:]))
	if v == 1 {
		return 65536
	}
	return v
}

// DescribePage renders the identifying tag of a page made by MakePage.
func DescribePage(p []byte) string {
	if len(p) < 100 {
		return fmt.Sprintf("<%d bytes>", len(p))
	}
	if string(p[:15]) == "SQLite format 3" {
		return fmt.Sprintf("hdr{cc=%d n=%d mode=%d}", binary.BigEndian.Uint32(p[24:]), binary.BigEndian.Uint32(p[28:]), p[18])
	}
	allZero := true
	for _, b := range p[:64] {
		if b != 0 {
			allZero = false
		}
	}
	if allZero {
		return "zeros"
	}
	return fmt.Sprintf("pg{%d v%d f%02x}", binary.BigEndian.Uint32(p[4:]), binary.BigEndian.Uint32(p[8:]), p[12])
}
