package ref

import (
	"fmt"
	"sync"
)

// History records, per database, the image a writer produced at each position,
// at the moment the writer's program committed and from what the writer
// itself wrote - never from what LiteFS stored.
type History struct {
	mu sync.Mutex
	m  map[string]map[Pos]*Image
	// order of recording per database, for reports
	order map[string][]Pos
}

// NewHistory returns an empty history.
func NewHistory() *History {
	return &History{m: map[string]map[Pos]*Image{}, order: map[string][]Pos{}}
}

// Record stores the image for (db, pos). Recording a different image for a
// position already present is an error (two different commits cannot share a
// TXID and checksum unless the images are equal).
func (h *History) Record(db string, pos Pos, im *Image) error {
	h.mu.Lock()
	defer h.mu.Unlock()
	if h.m[db] == nil {
		h.m[db] = map[Pos]*Image{}
	}
	if old, ok := h.m[db][pos]; ok {
		if d := old.Diff(im); d != "" {
			return fmt.Errorf("history: position %s of %q recorded twice with different images: %s", pos, db, d)
		}
		return nil
	}
	h.m[db][pos] = im.Clone()
	h.order[db] = append(h.order[db], pos)
	return nil
}

// Lookup returns the image recorded for (db, pos).
func (h *History) Lookup(db string, pos Pos) (*Image, bool) {
	h.mu.Lock()
	defer h.mu.Unlock()
	im, ok := h.m[db][pos]
	return im, ok
}

// Positions returns the recorded positions of db in recording order.
func (h *History) Positions(db string) []Pos {
	h.mu.Lock()
	defer h.mu.Unlock()
	return append([]Pos(nil), h.order[db]...)
}
