// Package gen holds rapid generators shared by several property packages.
package gen

import (
	"github.com/superfly/litefs/verif/pager"
	"pgregory.net/rapid"
)

var sizes = []uint32{1, 2, 3, 5, 17, 255, 256, 257, 258, 300, 511, 512, 513, 520}

func genSize(t *rapid.T, cur uint32) uint32 {
	switch rapid.IntRange(0, 9).Draw(t, "sizekind") {
	case 0, 1, 2, 3: // stay
		if cur == 0 {
			return rapid.SampledFrom(sizes).Draw(t, "size0")
		}
		return cur
	case 4, 5: // grow a little
		return cur + uint32(rapid.IntRange(1, 4).Draw(t, "grow"))
	case 6: // shrink a little
		d := uint32(rapid.IntRange(1, 4).Draw(t, "shrink"))
		if cur > d {
			return cur - d
		}
		return 1
	default: // jump to a boundary
		return rapid.SampledFrom(sizes).Draw(t, "size")
	}
}

// Txs draws n transactions, tracking the committed size so that page
// numbers are meaningful (the interpreter clamps anything out of range, so a
// shrunk plan is still executable).
func Txs(t *rapid.T, n int, maxPages uint32) []pager.Tx {
	var txs []pager.Tx
	cur := uint32(0)
	for i := 0; i < n; i++ {
		var tx pager.Tx
		tx.Fill = byte(rapid.IntRange(1, 250).Draw(t, "fill"))
		if cur > 0 && rapid.IntRange(0, 14).Draw(t, "nowrite") == 0 {
			tx.NoWrite = true
			txs = append(txs, tx)
			continue
		}
		tx.NewSize = genSize(t, cur)
		if tx.NewSize > maxPages {
			tx.NewSize = maxPages
		}
		hi := cur
		if tx.NewSize > hi {
			hi = tx.NewSize
		}
		nw := rapid.IntRange(0, 12).Draw(t, "nwrites")
		for j := 0; j < nw; j++ {
			tx.Writes = append(tx.Writes, pager.Write{
				Pgno: uint32(rapid.IntRange(2, int(hi)+1).Draw(t, "pgno")),
				Ver:  uint32(rapid.IntRange(1, 1<<20).Draw(t, "ver")),
			})
		}
		if tx.NewSize > cur+2 && rapid.IntRange(0, 3).Draw(t, "holes?") == 0 {
			tx.Holes = rapid.IntRange(1, 3).Draw(t, "holes")
		}
		if rapid.IntRange(0, 3).Draw(t, "spill?") == 0 {
			tx.SpillAfter = rapid.IntRange(1, 6).Draw(t, "spill")
		}
		if rapid.IntRange(0, 4).Draw(t, "rollback?") == 0 { // also the very first transaction of a new database
			tx.Rollback = true
		}
		txs = append(txs, tx)
		if !tx.Rollback {
			cur = tx.NewSize
		}
	}
	return txs
}

