package gen

import "github.com/superfly/litefs/verif/ref"

// ImportImage builds a valid SQLite database image of n pages for DB.Import.
func ImportImage(pageSize uint32, mode int, n, ver uint32) *ref.Image {
	img := ref.NewImage(pageSize)
	lock := ref.LockPgno(pageSize)
	for p := uint32(2); p <= n; p++ {
		if p != lock {
			img.Set(p, ref.MakePage(pageSize, p, ver, byte(ver)))
		}
	}
	img.Resize(n)
	img.Set(1, ref.MakeHeaderPage(pageSize, mode, ver, n, ver, byte(ver)))
	return img
}

// AfterImport returns the image a database holds after importing img: the file
// change counter (bytes 24-27) and the schema cookie (bytes 40-43) of page 1
// are reset so that open connections reload.
func AfterImport(img *ref.Image) *ref.Image {
	out := img.Clone()
	p1 := append([]byte(nil), out.Page(1)...)
	copy(p1[24:28], []byte{0, 0, 0, 0})
	copy(p1[40:44], []byte{0, 0, 0, 0})
	out.Set(1, p1)
	return out
}
