// Package pbt is the thin layer between the property packages and
// pgregory.net/rapid: plan-first generation, per-case classification
// counters, replay files written at the moment of failure, known-finding
// handling, and the statistics the driver turns into evidence.
//
// A property is a pair (Gen, Run): Gen draws a plan (pure, JSON-serialisable
// data) from rapid; Run executes the plan against the system and the model.
// Run never draws: so every plan that was ever generated can be replayed from
// its JSON without the library.
package pbt

import (
	"crypto/sha256"
	"encoding/hex"
	"encoding/json"
	"fmt"
	"os"
	"path/filepath"
	"runtime/debug"
	"sort"
	"strconv"
	"strings"
	"sync"
	"testing"

	"pgregory.net/rapid"
)

// Prop is a named property over plans of type P.
type Prop[P any] struct {
	ID   string // property id, e.g. "C02"
	Name string // unit name, unique within the property
	Gen  func(t *rapid.T) P
	Run  func(c *Case, plan P)
}

// Case is the context of one execution of a property.
type Case struct {
	prop   string
	name   string
	rt     *rapid.T   // nil on replay and in enumerations
	tt     testing.TB // set on replay and in enumerations
	plan   any
	labels map[string]int
	nontr  bool
	notes  []string
	failed bool
	// abandoned: the sandbox ran out of a resource in the middle of the case; it says
	// nothing about the property and is not counted as an evaluation
	abandoned bool
	st        *stats
	obs       map[string]int64

	cleanup []func()
}

type knownAbort struct{ sig string }

// Label counts a classification label for this case.
func (c *Case) Label(l string) { c.labels[l]++ }

// Labelf counts a formatted classification label for this case.
func (c *Case) Labelf(format string, a ...any) { c.labels[fmt.Sprintf(format, a...)]++ }

// HasLabel reports whether the label was set on this case.
func (c *Case) HasLabel(l string) bool { return c.labels[l] > 0 }

// NonTrivial marks the case as non-trivial by the property's stated rule.
func (c *Case) NonTrivial() { c.nontr = true }

// Observe adds n to a run-wide named counter (reported in evidence).
func (c *Case) Observe(name string, n int64) { c.obs[name] += n }

// Notef records a line in the trace that is stored with a failure.
func (c *Case) Notef(format string, a ...any) {
	if len(c.notes) < 4000 {
		c.notes = append(c.notes, fmt.Sprintf(format, a...))
	}
}

// Logf logs through the underlying test.
func (c *Case) Logf(format string, a ...any) {
	if c.rt != nil {
		c.rt.Logf(format, a...)
	} else {
		c.tt.Logf(format, a...)
	}
}

// TempDir creates a scratch directory removed at the end of the case.
func (c *Case) TempDir() string {
	dir, err := os.MkdirTemp("", "verif-"+c.prop+"-")
	if err != nil {
		panic(err)
	}
	c.cleanup = append(c.cleanup, func() { _ = os.RemoveAll(dir) })
	return dir
}

// Cleanup registers fn to run at the end of the case (LIFO).
func (c *Case) Cleanup(fn func()) { c.cleanup = append(c.cleanup, fn) }

// Failf reports a violation of the property with a finding signature. If the
// signature is listed as a known finding the occurrence is counted and the
// case is abandoned without failing; otherwise a replay file is written and
// the case fails.
func (c *Case) Failf(sig string, format string, a ...any) {
	msg := fmt.Sprintf(format, a...)
	if resourceTrouble(msg) || (strings.Contains(sig, "/liveness/") && portPressure()) {
		// The sandbox ran out of something (ports, descriptors, disk, memory). That
		// says nothing about the property: the case is abandoned and counted.
		c.st.known("environment/resource-exhausted", msg)
		panic(knownAbort{"environment/resource-exhausted"})
	}
	if isKnown(sig) {
		c.st.known(sig, msg)
		panic(knownAbort{sig})
	}
	c.failed = true
	c.writeFail(sig, msg)
	if c.rt != nil {
		c.rt.Fatalf("[%s] %s", sig, msg)
	} else {
		c.tt.Fatalf("[%s] %s", sig, msg)
	}
	panic("unreachable")
}

// Excluded reports an occurrence of a finding and says whether it is listed in the
// known-findings file. If it is, the occurrence is counted and the caller goes on with
// the rest of the case (the finding is excluded by construction so that the search
// continues behind it); if it is not, the case fails like with Failf.
func (c *Case) Excluded(sig string, format string, a ...any) bool {
	if isKnown(sig) {
		c.st.known(sig, fmt.Sprintf(format, a...))
		return true
	}
	c.Failf(sig, format, a...)
	return false
}

func resourceTrouble(msg string) bool {
	for _, pat := range []string{"address already in use", "too many open files", "no space left on device", "cannot allocate memory", "cannot assign requested address", "resource temporarily unavailable"} {
		if strings.Contains(msg, pat) {
			return true
		}
	}
	return false
}

// portPressure reports that most of the sandbox's ephemeral ports sit in
// TIME_WAIT: connection attempts fail or stall for reasons unrelated to LiteFS,
// so a missed liveness bound says nothing.
func portPressure() bool {
	b, err := os.ReadFile("/proc/net/sockstat")
	if err != nil {
		return false
	}
	tw := 0
	for _, line := range strings.Split(string(b), "\n") {
		f := strings.Fields(line)
		for i := 0; i+1 < len(f); i++ {
			if f[0] == "TCP:" && f[i] == "tw" {
				_, _ = fmt.Sscanf(f[i+1], "%d", &tw)
			}
		}
	}
	lo, hi := 32768, 60999
	if r, err := os.ReadFile("/proc/sys/net/ipv4/ip_local_port_range"); err == nil {
		_, _ = fmt.Sscanf(string(r), "%d %d", &lo, &hi)
	}
	return tw*10 > (hi-lo)*6
}

// Skip abandons the case as invalid (rapid will generate another one).
func (c *Case) Skip(why string) {
	if c.rt != nil {
		c.rt.Skip(why)
	}
	c.tt.Skipf("%s", why)
}

type failFile struct {
	Property  string   `json:"property"`
	Unit      string   `json:"unit"`
	Signature string   `json:"signature"`
	Message   string   `json:"message"`
	Labels    []string `json:"labels,omitempty"`
	Trace     []string `json:"trace,omitempty"`
	Plan      any      `json:"plan"`
}

func (c *Case) writeFail(sig, msg string) {
	dir := os.Getenv("VERIF_FAILDIR")
	if dir == "" {
		return
	}
	ff := failFile{Property: c.prop, Unit: c.name, Signature: sig, Message: msg, Plan: c.plan, Trace: c.notes}
	for l := range c.labels {
		ff.Labels = append(ff.Labels, l)
	}
	sort.Strings(ff.Labels)
	b, err := json.MarshalIndent(ff, "", " ")
	if err != nil {
		b = []byte(fmt.Sprintf(`{"property":%q,"unit":%q,"signature":%q,"message":%q,"plan":null}`, c.prop, c.name, sig, msg+" (plan not serialisable: "+err.Error()+")"))
	}
	_ = os.MkdirAll(dir, 0o777)
	// The first failure of a run is kept separately: shrinking may wander to a
	// different (still genuine) failure; both are of interest.
	first := filepath.Join(dir, c.name+".first.json")
	if _, err := os.Stat(first); err != nil {
		_ = os.WriteFile(first, b, 0o666)
	}
	_ = os.WriteFile(filepath.Join(dir, c.name+".json"), b, 0o666)
}

func (c *Case) writeCurrent() {
	dir := os.Getenv("VERIF_FAILDIR")
	if dir == "" || os.Getenv("VERIF_CRASHSAFE") == "" {
		return
	}
	b, err := json.Marshal(failFile{Property: c.prop, Unit: c.name, Signature: "process-died", Message: "the test process died while executing this plan", Plan: c.plan})
	if err == nil {
		_ = os.MkdirAll(dir, 0o777)
		_ = os.WriteFile(filepath.Join(dir, c.name+".current.json"), b, 0o666)
	}
}

// ---- statistics -----------------------------------------------------------

type stats struct {
	mu          sync.Mutex
	Property    string            `json:"property"`
	Unit        string            `json:"unit"`
	Evaluations int               `json:"evaluations"`
	NonTrivial  int               `json:"nontrivial"`
	Hashes      []string          `json:"nontrivial_hashes"`
	Labels      map[string]int    `json:"labels"`
	Samples     []json.RawMessage `json:"samples"`
	Known       map[string]int    `json:"known"`
	KnownMsg    map[string]string `json:"known_msg"`
	Observed    map[string]int64  `json:"observed"`
	Exhaustive  bool              `json:"exhaustive"`
	Space       int64             `json:"space,omitempty"`
	seen        map[string]struct{}
}

var (
	allStatsMu sync.Mutex
	allStats   = map[string]*stats{}
)

func statsFor(prop, unit string) *stats {
	allStatsMu.Lock()
	defer allStatsMu.Unlock()
	key := prop + "/" + unit
	st := allStats[key]
	if st == nil {
		st = &stats{Property: prop, Unit: unit, Labels: map[string]int{}, Known: map[string]int{}, KnownMsg: map[string]string{}, Observed: map[string]int64{}, seen: map[string]struct{}{}}
		allStats[key] = st
	}
	return st
}

func (st *stats) known(sig, msg string) {
	st.mu.Lock()
	defer st.mu.Unlock()
	st.Known[sig]++
	if _, ok := st.KnownMsg[sig]; !ok {
		st.KnownMsg[sig] = msg
	}
}

const maxSamples = 6

func (st *stats) record(c *Case) {
	st.mu.Lock()
	defer st.mu.Unlock()
	st.Evaluations++
	for l, n := range c.labels {
		if n > 0 {
			st.Labels[l]++
		}
	}
	for k, v := range c.obs {
		st.Observed[k] += v
	}
	if !c.nontr {
		return
	}
	st.NonTrivial++
	b, err := json.Marshal(c.plan)
	if err != nil {
		b = []byte(fmt.Sprintf("%v", c.plan))
	}
	sum := sha256.Sum256(b)
	h := hex.EncodeToString(sum[:8])
	if _, ok := st.seen[h]; ok {
		return
	}
	st.seen[h] = struct{}{}
	st.Hashes = append(st.Hashes, h)
	if len(st.Samples) < maxSamples && len(b) < 6000 {
		st.Samples = append(st.Samples, json.RawMessage(b))
	}
}

// Flush writes the statistics of all units run in this process to
// $VERIF_STATS (a directory), one file per unit.
func Flush() {
	dir := os.Getenv("VERIF_STATS")
	if dir == "" {
		return
	}
	allStatsMu.Lock()
	defer allStatsMu.Unlock()
	_ = os.MkdirAll(dir, 0o777)
	for _, st := range allStats {
		st.mu.Lock()
		b, _ := json.Marshal(st)
		st.mu.Unlock()
		name := fmt.Sprintf("%s.%s.%s.json", st.Property, st.Unit, os.Getenv("VERIF_SHARD"))
		_ = os.WriteFile(filepath.Join(dir, name), b, 0o666)
	}
}

// ---- known findings --------------------------------------------------------

type knownFile struct {
	Findings []struct {
		Status    string `json:"status"`
		Property  string `json:"property"`
		Signature string `json:"signature"`
	} `json:"findings"`
}

var (
	knownOnce sync.Once
	knownSigs map[string]bool
)

func isKnown(sig string) bool {
	knownOnce.Do(func() {
		knownSigs = map[string]bool{}
		path := os.Getenv("VERIF_KNOWN")
		if path == "" {
			return
		}
		b, err := os.ReadFile(path)
		if err != nil {
			return
		}
		var kf knownFile
		if json.Unmarshal(b, &kf) != nil {
			return
		}
		for _, f := range kf.Findings {
			if f.Status == "known" {
				knownSigs[f.Signature] = true
			}
		}
	})
	return knownSigs[sig]
}

// IsKnown reports whether a finding signature is listed as a known finding;
// generators use it to exclude a known-bad input class by construction.
func IsKnown(sig string) bool { return isKnown(sig) }

// ---- running ---------------------------------------------------------------

// Tier returns "quick" or "thorough".
func Tier() string {
	if os.Getenv("VERIF_TIER") == "thorough" {
		return "thorough"
	}
	return "quick"
}

// Thorough reports whether the thorough tier is selected.
func Thorough() bool { return Tier() == "thorough" }

// Seed returns VERIF_SEED (default 1, 0 remapped to 1).
func Seed() int64 {
	v, err := strconv.ParseInt(os.Getenv("VERIF_SEED"), 10, 64)
	if err != nil || v == 0 {
		return 1
	}
	return v
}

// Shard returns this process's shard index and the shard count.
func Shard() (int, int) {
	i, _ := strconv.Atoi(os.Getenv("VERIF_SHARD"))
	n, _ := strconv.Atoi(os.Getenv("VERIF_SHARDS"))
	if n <= 0 {
		n = 1
	}
	return i, n
}

func (p Prop[P]) newCase(rt *rapid.T, tt testing.TB, plan P) *Case {
	return &Case{prop: p.ID, name: p.Name, rt: rt, tt: tt, plan: plan, labels: map[string]int{}, obs: map[string]int64{}, st: statsFor(p.ID, p.Name)}
}

func (p Prop[P]) exec(c *Case, plan P) {
	defer func() {
		for i := len(c.cleanup) - 1; i >= 0; i-- {
			c.cleanup[i]()
		}
	}()
	defer func() {
		r := recover()
		if r == nil {
			return
		}
		if ka, ok := r.(knownAbort); ok {
			c.abandoned = ka.sig == "environment/resource-exhausted"
			return // counted; the case is abandoned without failing
		}
		if c.failed || strings.Contains(fmt.Sprintf("%T", r), "rapid.") {
			panic(r)
		}
		// A panic escaping the code under test (or the harness).
		c.failed = true
		c.writeFail(p.ID+"/panic", fmt.Sprintf("panic: %v\n%s", r, debug.Stack()))
		panic(r)
	}()
	c.writeCurrent()
	p.Run(c, plan)
}

// Check runs the property under rapid. The number of cases and the seed come
// from the -rapid.* flags the driver passes.
func (p Prop[P]) Check(t *testing.T) {
	defer Flush()
	_ = os.RemoveAll(filepath.Join("testdata", "rapid"))
	rapid.Check(t, func(rt *rapid.T) {
		plan := p.Gen(rt)
		c := p.newCase(rt, nil, plan)
		p.exec(c, plan)
		if !c.failed && !c.abandoned {
			c.st.record(c)
		}
	})
}

// RunPlan executes one explicit plan (enumerations, fixtures, regression).
func (p Prop[P]) RunPlan(t testing.TB, plan P) {
	c := p.newCase(nil, t, plan)
	p.exec(c, plan)
	if !c.failed && !c.abandoned {
		c.st.record(c)
	}
}

// MarkExhaustive records that unit enumerated a finite space completely.
func MarkExhaustive(prop, unit string, space int64) {
	st := statsFor(prop, unit)
	st.mu.Lock()
	st.Exhaustive, st.Space = true, space
	st.mu.Unlock()
}

// Replayer is implemented by every Prop.
type Replayer interface {
	unit() string
	replay(t *testing.T, raw json.RawMessage)
}

func (p Prop[P]) unit() string { return p.Name }

func (p Prop[P]) replay(t *testing.T, raw json.RawMessage) {
	var plan P
	if err := json.Unmarshal(raw, &plan); err != nil {
		t.Fatalf("cannot decode plan: %v", err)
	}
	p.RunPlan(t, plan)
}

// Replay executes the plan stored in $VERIF_REPLAY with the unit it names,
// without the property-testing library.
func Replay(t *testing.T, props ...Replayer) {
	defer Flush()
	path := os.Getenv("VERIF_REPLAY")
	if path == "" {
		t.Skip("VERIF_REPLAY not set")
	}
	b, err := os.ReadFile(path)
	if err != nil {
		t.Fatalf("read replay: %v", err)
	}
	var ff struct {
		Unit string          `json:"unit"`
		Plan json.RawMessage `json:"plan"`
	}
	if err := json.Unmarshal(b, &ff); err != nil {
		t.Fatalf("decode replay: %v", err)
	}
	for _, p := range props {
		if p.unit() == ff.Unit {
			p.replay(t, ff.Plan)
			return
		}
	}
	t.Skipf("replay file is for unit %q, not in this package", ff.Unit)
}
