// Package cluster runs several LiteFS nodes in one process: real Stores, the
// real HTTP server on loopback, the real HTTP client behind a fault layer, and
// a scripted in-memory lease service shared by all nodes.
package cluster

import (
	"context"
	"strings"
	"fmt"
	"sync"
	"time"

	"github.com/superfly/litefs"
)

// LeaseService is the shared state machine behind every node's Leaser: one
// holder at a time, a cluster ID, and a log of every call. Expiry is a
// scripted event, never a timer.
type LeaseService struct {
	mu        sync.Mutex
	holder    *Lease
	clusterID string
	seq       int
	TTL       time.Duration

	calls []LeaseCall

	// Scripted behaviour, all keyed by node name ("" = every node).
	acquireErr     map[string]error // Acquire returns this error
	renewErr       map[string]error // Renew returns this error (connection-style failure)
	primaryInfoErr map[string]error
	clusterIDErr   map[string]error
	stall          map[string]chan struct{} // calls by the node block until the channel is closed

	grantCID map[string]string // lease id -> the service's cluster id at the moment the lease was granted

	// OnClose, if set, is called (without the service's mutex) when a node gives its
	// lease back, before the service forgets it.
	OnClose func(node, leaseID string)
}

// LeaseCall is one recorded call to the service.
type LeaseCall struct {
	At     time.Time
	Node   string
	Op     string // acquire, acquire-existing, renew, close, primary-info, cluster-id, set-cluster-id, handoff
	Arg    string
	Result string
}

// NewLeaseService returns a service with no holder and no cluster ID.
func NewLeaseService(ttl time.Duration) *LeaseService {
	return &LeaseService{TTL: ttl, acquireErr: map[string]error{}, renewErr: map[string]error{}, primaryInfoErr: map[string]error{}, clusterIDErr: map[string]error{}, stall: map[string]chan struct{}{}}
}

func (s *LeaseService) record(node, op, arg string, err error, res string) {
	if err != nil {
		res = "err:" + err.Error()
	}
	s.calls = append(s.calls, LeaseCall{At: time.Now(), Node: node, Op: op, Arg: arg, Result: res})
}

// Calls returns a copy of the call log.
func (s *LeaseService) Calls() []LeaseCall {
	s.mu.Lock()
	defer s.mu.Unlock()
	return append([]LeaseCall(nil), s.calls...)
}

// Holder returns the name of the node holding the lease ("" if none) and the lease id.
func (s *LeaseService) Holder() (node, id string) {
	s.mu.Lock()
	defer s.mu.Unlock()
	if s.holder == nil {
		return "", ""
	}
	return s.holder.owner.Name, s.holder.id
}

// Expire removes the current lease on the service side: the holder learns of
// it at its next renewal (ErrLeaseExpired).
func (s *LeaseService) Expire() {
	s.mu.Lock()
	defer s.mu.Unlock()
	if s.holder != nil {
		s.record(s.holder.owner.Name, "expire", s.holder.id, nil, "scripted")
		s.holder = nil
	}
}

// SetClusterIDDirect overwrites the service's cluster id (scripted conflict).
func (s *LeaseService) SetClusterIDDirect(id string) {
	s.mu.Lock()
	s.clusterID = id
	s.mu.Unlock()
}

// Stall makes the node's next calls of one operation ("acquire", "primary-info",
// "cluster-id") wait until Unstall: a slow lease service, at a chosen point of the
// node's election loop.
func (s *LeaseService) Stall(node, op string) {
	s.mu.Lock()
	defer s.mu.Unlock()
	if s.stall[node+"/"+op] == nil {
		s.stall[node+"/"+op] = make(chan struct{})
	}
}

// Unstall releases every stalled call of the node ("" = all nodes).
func (s *LeaseService) Unstall(node string) {
	s.mu.Lock()
	defer s.mu.Unlock()
	for k, ch := range s.stall {
		if node == "" || strings.HasPrefix(k, node+"/") {
			close(ch)
			delete(s.stall, k)
		}
	}
}

func (s *LeaseService) waitStall(ctx context.Context, node, op string) {
	s.mu.Lock()
	ch := s.stall[node+"/"+op]
	s.mu.Unlock()
	if ch != nil {
		select {
		case <-ch:
		case <-ctx.Done():
		}
	}
}

// ClusterIDAtGrant returns the service's cluster id at the moment the lease was granted to
// the node ("" if it had none then, or if no such grant is known).
func (s *LeaseService) ClusterIDAtGrant(node, leaseID string) string {
	s.mu.Lock()
	defer s.mu.Unlock()
	return s.grantCID[leaseID+"/"+node]
}

// ClusterIDDirect reads the service's cluster id.
func (s *LeaseService) ClusterIDDirect() string {
	s.mu.Lock()
	defer s.mu.Unlock()
	return s.clusterID
}

// SetAcquireErr scripts Acquire for a node ("" = all); nil clears.
func (s *LeaseService) SetAcquireErr(node string, err error) { s.setErr(s.acquireErr, node, err) }

// SetRenewErr scripts Renew for a node; nil clears.
func (s *LeaseService) SetRenewErr(node string, err error) { s.setErr(s.renewErr, node, err) }

// SetPrimaryInfoErr scripts PrimaryInfo for a node; nil clears.
func (s *LeaseService) SetPrimaryInfoErr(node string, err error) {
	s.setErr(s.primaryInfoErr, node, err)
}

// SetClusterIDErr scripts ClusterID for a node; nil clears.
func (s *LeaseService) SetClusterIDErr(node string, err error) { s.setErr(s.clusterIDErr, node, err) }

func (s *LeaseService) setErr(m map[string]error, node string, err error) {
	s.mu.Lock()
	defer s.mu.Unlock()
	if err == nil {
		delete(m, node)
	} else {
		m[node] = err
	}
}

func scripted(m map[string]error, node string) error {
	if err := m[node]; err != nil {
		return err
	}
	return m[""]
}

// NodeLeaser is one node's view of the service (implements litefs.Leaser).
type NodeLeaser struct {
	svc      *LeaseService
	Name     string
	hostname string

	mu  sync.Mutex
	url string
}

var _ litefs.Leaser = (*NodeLeaser)(nil)

// NewNodeLeaser returns a leaser for the named node.
func (s *LeaseService) NewNodeLeaser(name string) *NodeLeaser {
	return &NodeLeaser{svc: s, Name: name, hostname: name}
}

// SetAdvertiseURL sets the URL other nodes reach this node at.
func (l *NodeLeaser) SetAdvertiseURL(u string) { l.mu.Lock(); l.url = u; l.mu.Unlock() }

func (l *NodeLeaser) Close() error     { return nil }
func (l *NodeLeaser) Type() string     { return "scripted" }
func (l *NodeLeaser) Hostname() string { return l.hostname }
func (l *NodeLeaser) AdvertiseURL() string {
	l.mu.Lock()
	defer l.mu.Unlock()
	return l.url
}

func (l *NodeLeaser) Acquire(ctx context.Context) (litefs.Lease, error) {
	s := l.svc
	s.waitStall(ctx, l.Name, "acquire")
	s.mu.Lock()
	defer s.mu.Unlock()
	if err := scripted(s.acquireErr, l.Name); err != nil {
		s.record(l.Name, "acquire", "", err, "")
		return nil, err
	}
	if s.holder != nil {
		s.record(l.Name, "acquire", "", litefs.ErrPrimaryExists, "")
		return nil, litefs.ErrPrimaryExists
	}
	s.seq++
	lease := &Lease{svc: s, id: fmt.Sprintf("lease-%d", s.seq), owner: l, renewedAt: time.Now(), handoffCh: make(chan uint64)}
	s.holder = lease
	if s.grantCID == nil {
		s.grantCID = map[string]string{}
	}
	s.grantCID[lease.id+"/"+l.Name] = s.clusterID
	s.record(l.Name, "acquire", "", nil, "granted:"+lease.id)
	return lease, nil
}

func (l *NodeLeaser) AcquireExisting(ctx context.Context, leaseID string) (litefs.Lease, error) {
	s := l.svc
	s.mu.Lock()
	defer s.mu.Unlock()
	if s.holder == nil || s.holder.id != leaseID {
		err := fmt.Errorf("lease %q does not exist", leaseID)
		s.record(l.Name, "acquire-existing", leaseID, err, "")
		return nil, err
	}
	old := s.holder
	old.handedOff = true
	lease := &Lease{svc: s, id: leaseID, owner: l, renewedAt: time.Now(), handoffCh: make(chan uint64)}
	s.holder = lease
	if s.grantCID == nil {
		s.grantCID = map[string]string{}
	}
	s.grantCID[leaseID+"/"+l.Name] = s.clusterID
	s.record(l.Name, "acquire-existing", leaseID, nil, "granted:"+leaseID+" from "+old.owner.Name)
	return lease, nil
}

func (l *NodeLeaser) PrimaryInfo(ctx context.Context) (litefs.PrimaryInfo, error) {
	s := l.svc
	s.waitStall(ctx, l.Name, "primary-info")
	s.mu.Lock()
	defer s.mu.Unlock()
	if err := scripted(s.primaryInfoErr, l.Name); err != nil {
		s.record(l.Name, "primary-info", "", err, "")
		return litefs.PrimaryInfo{}, err
	}
	if s.holder == nil {
		s.record(l.Name, "primary-info", "", litefs.ErrNoPrimary, "")
		return litefs.PrimaryInfo{}, litefs.ErrNoPrimary
	}
	info := litefs.PrimaryInfo{Hostname: s.holder.owner.hostname, AdvertiseURL: s.holder.owner.AdvertiseURL()}
	s.record(l.Name, "primary-info", "", nil, info.Hostname)
	return info, nil
}

func (l *NodeLeaser) ClusterID(ctx context.Context) (string, error) {
	s := l.svc
	s.waitStall(ctx, l.Name, "cluster-id")
	s.mu.Lock()
	defer s.mu.Unlock()
	if err := scripted(s.clusterIDErr, l.Name); err != nil {
		s.record(l.Name, "cluster-id", "", err, "")
		return "", err
	}
	s.record(l.Name, "cluster-id", "", nil, s.clusterID)
	return s.clusterID, nil
}

func (l *NodeLeaser) SetClusterID(ctx context.Context, clusterID string) error {
	s := l.svc
	s.mu.Lock()
	defer s.mu.Unlock()
	if s.clusterID != "" && s.clusterID != clusterID {
		err := fmt.Errorf("cluster id already set")
		s.record(l.Name, "set-cluster-id", clusterID, err, "")
		return err
	}
	s.clusterID = clusterID
	s.record(l.Name, "set-cluster-id", clusterID, nil, "ok")
	return nil
}

// Lease is a granted lease (implements litefs.Lease).
type Lease struct {
	svc       *LeaseService
	id        string
	owner     *NodeLeaser
	renewedAt time.Time
	handoffCh chan uint64
	handedOff bool
	closed    bool
}

var _ litefs.Lease = (*Lease)(nil)

func (l *Lease) ID() string { return l.id }
func (l *Lease) RenewedAt() time.Time {
	l.svc.mu.Lock()
	defer l.svc.mu.Unlock()
	return l.renewedAt
}
func (l *Lease) TTL() time.Duration { return l.svc.TTL }

func (l *Lease) Renew(ctx context.Context) error {
	s := l.svc
	s.mu.Lock()
	defer s.mu.Unlock()
	if err := scripted(s.renewErr, l.owner.Name); err != nil {
		s.record(l.owner.Name, "renew", l.id, err, "")
		return err
	}
	if s.holder != l {
		s.record(l.owner.Name, "renew", l.id, litefs.ErrLeaseExpired, "")
		return litefs.ErrLeaseExpired
	}
	l.renewedAt = time.Now()
	s.record(l.owner.Name, "renew", l.id, nil, "ok")
	return nil
}

func (l *Lease) Handoff(ctx context.Context, nodeID uint64) error {
	l.svc.mu.Lock()
	l.svc.record(l.owner.Name, "handoff", litefs.FormatNodeID(nodeID), nil, "requested")
	l.svc.mu.Unlock()
	ctx, cancel := context.WithTimeout(ctx, 5*time.Second)
	defer cancel()
	select {
	case <-ctx.Done():
		return ctx.Err()
	case l.handoffCh <- nodeID:
		return nil
	}
}

func (l *Lease) HandoffCh() <-chan uint64 { return l.handoffCh }

func (l *Lease) Close() error {
	s := l.svc
	if fn := s.OnClose; fn != nil {
		fn(l.owner.Name, l.id)
	}
	s.mu.Lock()
	defer s.mu.Unlock()
	l.closed = true
	if s.holder == l {
		s.holder = nil
		s.record(l.owner.Name, "close", l.id, nil, "released")
	} else {
		s.record(l.owner.Name, "close", l.id, nil, "not-holder")
	}
	return nil
}
