package cluster

import (
	"context"
	"crypto/tls"
	"net"
	"encoding/binary"
	"fmt"
	"io"
	"os"
	"path/filepath"
	"strings"
	"sync"
	"syscall"
	"time"

	"github.com/superfly/litefs"
	lhttp "github.com/superfly/litefs/http"
	"github.com/superfly/litefs/internal/chunk"
	"github.com/superfly/litefs/verif/crash"
	"github.com/superfly/litefs/verif/node"
	"github.com/superfly/litefs/verif/pager"
	"github.com/superfly/litefs/verif/ref"
	"github.com/superfly/ltx"
	"golang.org/x/net/http2"
)

// Cluster is a set of nodes sharing one lease service and one history.
type Cluster struct {
	Svc   *LeaseService
	Nodes []*CNode
	Hist  *ref.History
	Base  string // scratch directory; every node lives in Base/<name>

	// DBs holds the static configuration of each database of the plan.
	DBs map[string]*DBConfig

	nextOwner uint64
	amu       sync.Mutex
	anomalies []string

	// OpLog, if non-nil, receives every file operation the nodes' writer connections
	// issue (and state rebuilds): a debugging aid for timing-dependent failures.
	OpLog *[]string
}

// DBConfig is the per-database configuration every writer uses.
type DBConfig struct {
	Name        string
	PageSize    uint32
	JournalMode string // pager.Delete / Truncate / Persist / WAL
	Sync        string
	Sector      uint32
}

// New returns an empty cluster rooted at base.
func New(base string, ttl time.Duration) *Cluster {
	cl := &Cluster{Svc: NewLeaseService(ttl), Hist: ref.NewHistory(), Base: base, DBs: map[string]*DBConfig{}, nextOwner: 1000}
	// A node gives its lease back only after it has stopped being primary: once the
	// service has forgotten the lease any other candidate may hold it.
	cl.Svc.OnClose = func(node, leaseID string) {
		cl.amu.Lock()
		nodes := append([]*CNode(nil), cl.Nodes...)
		cl.amu.Unlock()
		for _, n := range nodes {
			if n.Name == node && n.Up && n.Store != nil && n.Store.IsPrimary() {
				cl.amu.Lock()
				cl.anomalies = append(cl.anomalies, fmt.Sprintf("node %s gives lease %s back to the lease service while it still reports itself primary", node, leaseID))
				cl.amu.Unlock()
			}
		}
	}
	return cl
}

// LeaseAnomalies lists the moments at which a node was observed claiming the primary
// role without holding the lease (see New).
func (cl *Cluster) LeaseAnomalies() []string {
	cl.amu.Lock()
	defer cl.amu.Unlock()
	return append([]string(nil), cl.anomalies...)
}

// NodeOpts configure a node.
type NodeOpts struct {
	Candidate bool
	Compress  bool
	Filter    []string
	Prefetch  int
	Configure func(*litefs.Store)
	// MakeLeaser, if set, replaces the scripted lease service for this node (static
	// leaser, Consul leaser). It is called once the node's HTTP address is known.
	MakeLeaser func(name, advertiseURL string) (litefs.Leaser, error)
}

// CNode is one cluster member.
type CNode struct {
	*node.Node
	Name   string
	cl     *Cluster
	Server *lhttp.Server
	URL    string
	Leaser *NodeLeaser
	FC     *FaultClient
	Opts   NodeOpts
	Up     bool
	DirOverride string // if set, the node lives there instead of Base/<name>

	// Supervise: Store.Exit is process death. The data directory is frozen at that
	// instant and the node is restarted on the frozen copy by the next call of
	// Cluster.Supervise (as a service manager would restart the process).
	Supervise bool
	ExitLog   []int // every exit code ever reported by this node
	exitImage string
	exitN     int
	emu       sync.Mutex

	states map[string]*dbState
}

type dbState struct {
	model    *pager.DBModel
	conn     *pager.Conn
	knownPos ref.Pos
}

// AddNode creates and starts a node.
func (cl *Cluster) AddNode(name string, o NodeOpts) (*CNode, error) {
	n := &CNode{Name: name, cl: cl, Opts: o, states: map[string]*dbState{}}
	n.Leaser = cl.Svc.NewNodeLeaser(name)
	n.FC = NewFaultClient()
	cl.amu.Lock()
	cl.Nodes = append(cl.Nodes, n)
	cl.amu.Unlock()
	return n, n.Start()
}

// AddNodeDir is AddNode on an existing data directory.
func (cl *Cluster) AddNodeDir(name, dir string, o NodeOpts) (*CNode, error) {
	n := &CNode{Name: name, cl: cl, Opts: o, states: map[string]*dbState{}, DirOverride: dir}
	n.Leaser = cl.Svc.NewNodeLeaser(name)
	n.FC = NewFaultClient()
	cl.amu.Lock()
	cl.Nodes = append(cl.Nodes, n)
	cl.amu.Unlock()
	return n, n.Start()
}

// RemoveNode stops a node and forgets it.
func (cl *Cluster) RemoveNode(n *CNode) {
	n.Stop()
	for i, x := range cl.Nodes {
		if x == n {
			cl.amu.Lock()
			cl.Nodes = append(append([]*CNode(nil), cl.Nodes[:i]...), cl.Nodes[i+1:]...)
			cl.amu.Unlock()
			break
		}
	}
}

// Start (re)opens the node on its directory.
func (n *CNode) Start() error {
	dir := filepath.Join(n.cl.Base, n.Name)
	if n.DirOverride != "" {
		dir = n.DirOverride
	}
	n.Node = node.New(dir, node.Options{Candidate: n.Opts.Candidate, Leaser: n.Leaser, Client: n.FC, Compress: n.Opts.Compress, Configure: func(s *litefs.Store) {
		s.DatabaseFilter = n.Opts.Filter
		s.HaltAcquireTimeout = 2 * time.Second
		if n.Opts.Configure != nil {
			n.Opts.Configure(s)
		}
	}})
	n.M.Prefetch = n.Opts.Prefetch
	n.Server = lhttp.NewServer(n.Store, "127.0.0.1:0")
	if err := n.Server.Listen(); err != nil {
		return err
	}
	n.URL = n.Server.URL()
	n.Leaser.SetAdvertiseURL(n.URL)
	if n.Opts.MakeLeaser != nil {
		l, err := n.Opts.MakeLeaser(n.Name, n.URL)
		if err != nil {
			_ = n.Server.Close()
			return err
		}
		n.Store.Leaser = l
	}
	n.Server.Serve()
	if err := n.Store.Open(); err != nil {
		_ = n.Server.Close()
		return err
	}
	n.Up = true
	n.states = map[string]*dbState{}
	nd := n.Node
	nd.OnExit = func(code int) {
		n.emu.Lock()
		defer n.emu.Unlock()
		n.ExitLog = append(n.ExitLog, code)
		if n.Supervise && n.exitImage == "" && n.Node == nd {
			n.exitN++
			img := filepath.Join(n.cl.Base, fmt.Sprintf("%s.exit-%d", n.Name, n.exitN))
			if err := crash.CopyDir(nd.Dir, img); err == nil {
				n.exitImage = img
			}
		}
	}
	return nil
}

// Exited returns every exit code the node has reported so far (across restarts).
func (n *CNode) Exited() []int {
	n.emu.Lock()
	defer n.emu.Unlock()
	return append([]int(nil), n.ExitLog...)
}

// Supervise restarts every supervised node that called Store.Exit on the copy
// of its data directory taken at that instant. It returns the restarted nodes.
func (cl *Cluster) Supervise() (restarted []*CNode, err error) {
	for _, n := range cl.Nodes {
		n.emu.Lock()
		img := n.exitImage
		n.exitImage = ""
		n.emu.Unlock()
		if img == "" || !n.Up {
			continue
		}
		n.Stop()
		n.DirOverride = img
		if e := n.Start(); e != nil {
			return restarted, fmt.Errorf("node %s cannot restart after Store.Exit on the directory it left: %w", n.Name, e)
		}
		restarted = append(restarted, n)
	}
	return restarted, nil
}

// Stop closes the node (server first, then the store). The directory stays.
func (n *CNode) Stop() {
	if !n.Up {
		return
	}
	n.closeConns()
	n.Up = false
	n.FC.CutAll()
	_ = n.Server.Close()
	_ = n.Store.Close()
	n.FC.Inner.HTTPClient.CloseIdleConnections()
}

func (n *CNode) closeConns() {
	for _, st := range n.states {
		if st.conn != nil {
			st.conn.Close()
		}
	}
	n.states = map[string]*dbState{}
}

// Close stops every node.
func (cl *Cluster) Close() {
	for _, n := range cl.Nodes {
		n.Stop()
	}
}

// Primary returns the node that currently reports itself primary (nil if none).
func (cl *Cluster) Primary() *CNode {
	for _, n := range cl.Nodes {
		if n.holdsPrimary() {
			return n
		}
	}
	for _, n := range cl.Nodes {
		if n.Up && n.Store.IsPrimary() {
			return n // no holder on the service side: the node that still believes it is primary
		}
	}
	return nil
}

// holdsPrimary: the node believes it is primary and, where the scripted lease
// service is in use, the service agrees. (A node whose lease was expired on the
// service side goes on believing it is primary until its next renewal; such a
// node is not "the primary" for the harness.)
func (n *CNode) holdsPrimary() bool {
	if !n.Up || !n.Store.IsPrimary() {
		return false
	}
	if n.Opts.MakeLeaser != nil {
		return true
	}
	h, _ := n.cl.Svc.Holder()
	return h == n.Name
}

// WaitPrimary waits until exactly the given node is primary.
func (cl *Cluster) WaitPrimary(n *CNode, d time.Duration) error {
	deadline := time.Now().Add(d)
	for {
		if n.holdsPrimary() {
			return nil
		}
		if time.Now().After(deadline) {
			h, _ := cl.Svc.Holder()
			return fmt.Errorf("node %s did not become primary within %s (lease holder %q)", n.Name, d, h)
		}
		time.Sleep(100 * time.Microsecond)
	}
}

// MakePrimary moves the primary role to target deterministically: every other
// node's Acquire is scripted to fail, the current primary is demoted (or its
// lease expired), and target picks the lease up.
func (cl *Cluster) MakePrimary(target *CNode, viaExpiry bool, d time.Duration) error {
	if target.holdsPrimary() {
		return nil
	}
	cur := cl.Primary()
	for _, n := range cl.Nodes {
		if n != target {
			cl.Svc.SetAcquireErr(n.Name, litefs.ErrPrimaryExists)
		}
	}
	defer func() {
		for _, n := range cl.Nodes {
			cl.Svc.SetAcquireErr(n.Name, nil)
		}
	}()
	if cur != nil {
		for _, n := range cl.Nodes {
			if n.Up && n.Store.IsPrimary() {
				n.closeConns()
			}
		}
		if viaExpiry || cur == target {
			cl.Svc.Expire()
		} else {
			cur.Store.Demote()
		}
	}
	return cl.WaitPrimary(target, d)
}

// connectedTo reports whether n currently streams from the primary p.
func (n *CNode) connectedTo(p *CNode) bool {
	return p.Store.SubscriberByNodeID(n.Store.ID()) != nil
}

// WaitConverged waits until every running node's position map equals the
// primary's (restricted to the node's filter). It returns an error describing
// the laggard on timeout.
func (cl *Cluster) WaitConverged(d time.Duration) error { return cl.waitConverged(d, false) }

// WaitConvergedConnected additionally requires every running node to be streaming from
// the current primary. A node whose old primary was demoted can still apply a frame
// that primary had sent it before it connects to the new one: equal positions alone
// are not yet a quiet cluster right after a change of primary.
func (cl *Cluster) WaitConvergedConnected(d time.Duration) error { return cl.waitConverged(d, true) }

func (cl *Cluster) waitConverged(d time.Duration, connected bool) error {
	deadline := time.Now().Add(d)
	for {
		if _, err := cl.Supervise(); err != nil {
			return err
		}
		p := cl.Primary()
		var lag string
		if p == nil {
			lag = "no primary"
		} else {
			want := p.Store.PosMap()
			for _, n := range cl.Nodes {
				if !n.Up || n == p {
					continue
				}
				if connected && !n.connectedTo(p) {
					lag = fmt.Sprintf("node %s is not streaming from primary %s", n.Name, p.Name)
				}
				got := n.Store.PosMap()
				for name, pos := range want {
					if !n.replicates(name) {
						continue
					}
					if pos.IsZero() {
						continue
					}
					if got[name] != pos {
						lag = fmt.Sprintf("node %s db %q at %s, primary %s at %s", n.Name, name, got[name], p.Name, pos)
					}
				}
			}
		}
		if lag == "" {
			return nil
		}
		if time.Now().After(deadline) {
			return fmt.Errorf("not converged after %s: %s", d, lag)
		}
		time.Sleep(200 * time.Microsecond)
	}
}

func (n *CNode) replicates(db string) bool {
	if len(n.Opts.Filter) == 0 {
		return true
	}
	for _, f := range n.Opts.Filter {
		if f == db {
			return true
		}
	}
	return false
}

// ---- writers ----------------------------------------------------------------------

func headerChange(img *ref.Image) uint32 {
	if p := img.Page(1); len(p) >= 100 {
		return binary.BigEndian.Uint32(p[24:])
	}
	return 0
}

// state returns the node's SQLite-side state for db, rebuilt from the history
// whenever the node's position moved without this writer (replication,
// snapshot, role change).
func (n *CNode) state(db string) (*dbState, error) {
	cfg := n.cl.DBs[db]
	if cfg == nil {
		return nil, fmt.Errorf("unknown database %q", db)
	}
	pos := n.Pos(db)
	st := n.states[db]
	if st != nil && st.knownPos == pos {
		return st, nil
	}
	if st != nil && st.conn != nil {
		st.conn.Close()
	}
	img := ref.NewImage(cfg.PageSize)
	if pos.TXID != 0 {
		h, ok := n.cl.Hist.Lookup(db, pos)
		if !ok {
			return nil, fmt.Errorf("node %s reports position %s of %q which no writer ever committed", n.Name, pos, db)
		}
		img = h.Clone()
	}
	model := pager.NewDBModel(db, cfg.PageSize)
	model.Img = img
	model.Change = headerChange(img)
	n.cl.nextOwner++
	model.SetSaltSeed(uint32(n.cl.nextOwner)) // salts are random in SQLite: never equal across nodes or reopenings
	conn := pager.NewConn(n.M, model, n.cl.nextOwner)
	conn.JournalMode, conn.Sync, conn.SectorSize = cfg.JournalMode, cfg.Sync, cfg.Sector
	if lg := n.cl.OpLog; lg != nil {
		*lg = append(*lg, fmt.Sprintf("%s: writer state rebuilt at %s", n.Name, pos))
		name := n.Name
		conn.OnOp = func(op string) { *lg = append(*lg, name+": "+op) }
	}
	st = &dbState{model: model, conn: conn, knownPos: pos}
	n.states[db] = st
	return st, nil
}

// WriteResult is the outcome of one application transaction on a node.
type WriteResult struct {
	pager.TxResult
	Prev, Pos ref.Pos
	Err       error
}

// Write runs one transaction against db on this node through its mount, in the
// database's journal mode, and records the committed image in the history under
// the position the node reports.
func (n *CNode) Write(db string, tx pager.WalTx) (WriteResult, error) {
	// An application retries SQLITE_BUSY (LiteFS's own snapshots and applies hold
	// SQLite's locks for a moment); give up after three seconds.
	deadline := time.Now().Add(3 * time.Second)
	for {
		wr, err := n.writeOnce(db, tx)
		if err != nil || wr.Err != pager.ErrBusy || time.Now().After(deadline) {
			return wr, err
		}
		time.Sleep(200 * time.Microsecond)
	}
}

func (n *CNode) writeOnce(db string, tx pager.WalTx) (WriteResult, error) {
	var wr WriteResult
	st, err := n.state(db)
	if err != nil {
		return wr, err
	}
	cfg := n.cl.DBs[db]
	wr.Prev = n.Pos(db)
	if cfg.JournalMode == pager.WAL {
		if st.model.Img.N() == 0 || st.model.Img.Page(1)[18] != 2 {
			t := tx.Tx
			t.Rollback, t.NoWrite, t.SpillAfter = false, false, 0
			wr.TxResult, wr.Err = st.conn.SwitchToWAL(t)
		} else {
			wr.TxResult, wr.Err = st.conn.ExecWALTx(tx)
		}
	} else if st.model.Img.N() > 0 && st.model.Img.Page(1)[18] == 2 {
		// the database is in WAL format (it was imported that way): PRAGMA journal_mode=<rollback mode>
		wr.TxResult, wr.Err = st.conn.SwitchToRollback(tx.Tx)
	} else {
		wr.TxResult, wr.Err = st.conn.ExecRollbackTx(tx.Tx)
	}
	wr.Pos = n.Pos(db)
	if wr.Err == pager.ErrBusy {
		st.knownPos = wr.Pos // rolled back cleanly; the model is unchanged
		return wr, nil
	}
	if wr.Err != nil {
		// The connection's view is no longer trustworthy; drop it.
		st.conn.Close()
		delete(n.states, db)
		return wr, nil
	}
	st.knownPos = wr.Pos
	if wr.Pos != wr.Prev {
		if err := n.cl.Hist.Record(db, wr.Pos, st.model.Img); err != nil {
			return wr, err
		}
	}
	return wr, nil
}

// Model returns the image the node's writer believes is committed (nil if the
// node never wrote db since its last rebuild).
func (n *CNode) Model(db string) *ref.Image {
	if st := n.states[db]; st != nil {
		return st.model.Img
	}
	return nil
}

// Checkpoint runs an application checkpoint on a WAL database.
func (n *CNode) Checkpoint(db string, kind int) (pager.CkptResult, error) {
	st, err := n.state(db)
	if err != nil {
		return pager.CkptResult{}, err
	}
	if st.model.Img.N() == 0 || st.model.Img.Page(1)[18] != 2 {
		return pager.CkptResult{}, nil
	}
	return st.conn.Checkpoint(kind)
}

// Drop unlinks the database file through the mount.
func (n *CNode) Drop(db string) error {
	if st := n.states[db]; st != nil {
		st.conn.Close()
		delete(n.states, db)
	}
	return n.M.Remove(db)
}

// ---- readers (the C01 oracle's eyes) -------------------------------------------------

// ReadResult is what an application sees of one database on one node.
type ReadResult = node.ReadResult

// Read takes the read lock SQLite would take on this node's copy of db, reads
// the position, the file size and every page through the mount (and its
// simulated cache), and releases the lock. ErrBusy means a writer holds the
// lock right now.
func (n *CNode) Read(db string) (ReadResult, error) { return n.ReadUnder(db, nil) }

// ReadUnder is Read with a callback that runs while the read lock is still
// held (no internal writer can be active then).
func (n *CNode) ReadUnder(db string, under func()) (ReadResult, error) {
	n.cl.nextOwner++
	return n.Node.ReadDB(n.cl.nextOwner, db, under)
}

// PosFileOf formats a position the way the -pos file does.
func PosFileOf(p ref.Pos) string {
	return fmt.Sprintf("%s/%s", ltx.TXID(p.TXID).String(), ltx.Checksum(p.Checksum).String())
}

// ---- fault-injecting client -----------------------------------------------------------

// FaultClient wraps the real HTTP client.
type FaultClient struct {
	Inner *lhttp.Client

	mu       sync.Mutex
	refuse   bool
	cutAfter int64 // cut the next stream after that many bytes (0 = never)
	paused   bool
	cond     *sync.Cond
	streams  map[*faultStream]struct{}

	// one-shot faults for the halt / commit protocol
	DropHaltResp    int // the next n AcquireHaltLock responses are lost (the primary acted)
	DropCommitResp  int
	DropReleaseResp int
	DupCommit       int // the next n commits are sent twice

	StreamsOpened int
	BytesRead     int64
	streamURL     string // the primary the most recent stream was opened to
	refused       int // stream attempts turned away while Refuse was set

	// Inject, if set, replaces the next stream: the replica receives exactly these
	// bytes (a scripted primary) and then end-of-stream. One shot.
	Inject          []byte
	InjectClusterID string
	Injected        int // number of injected streams the node has consumed to the end or closed

	// transcript of what the primary offered on every stream (see Transcript)
	events []StreamEvent
}

// StreamEvent is one entry of the replication transcript of a node: a connection
// (with the positions the node announced) or a transaction file it was offered.
type StreamEvent struct {
	Stream  int                // ordinal of the stream on this client
	Connect map[string]ltx.Pos // set on the connect event
	Name    string             // database of an LTX frame
	Hdr     ltx.Header         // header of the offered file
	Err     string             // the transcript parser could not decode further
}

// InjectedCount reports how many scripted streams the node has finished with.
func (fc *FaultClient) InjectedCount() int { fc.mu.Lock(); defer fc.mu.Unlock(); return fc.Injected }

// SetInject arms a scripted stream (see Inject).
func (fc *FaultClient) SetInject(body []byte, clusterID string) {
	fc.mu.Lock()
	fc.Inject, fc.InjectClusterID = body, clusterID
	fc.mu.Unlock()
}

// Transcript returns a copy of the events so far.
func (fc *FaultClient) Transcript() []StreamEvent {
	fc.mu.Lock()
	defer fc.mu.Unlock()
	return append([]StreamEvent(nil), fc.events...)
}

func (fc *FaultClient) addEvent(e StreamEvent) {
	fc.mu.Lock()
	fc.events = append(fc.events, e)
	fc.mu.Unlock()
}

// tap parses a copy of the stream bytes into transcript events.
func (fc *FaultClient) tap(id int, r *io.PipeReader) {
	defer func() { _, _ = io.Copy(io.Discard, r) }()
	for {
		frame, err := litefs.ReadStreamFrame(r)
		if err != nil {
			return
		}
		if f, ok := frame.(*litefs.LTXStreamFrame); ok {
			cr := chunk.NewReader(r)
			hdr, _, err := ltx.DecodeHeader(cr)
			if err != nil {
				fc.addEvent(StreamEvent{Stream: id, Name: f.Name, Err: err.Error()})
				return
			}
			fc.addEvent(StreamEvent{Stream: id, Name: f.Name, Hdr: hdr})
			if _, err := io.Copy(io.Discard, cr); err != nil {
				return
			}
		}
	}
}

type injectedStream struct {
	io.Reader
	fc        *FaultClient
	clusterID string
	once      sync.Once
}

func (s *injectedStream) ClusterID() string { return s.clusterID }
func (s *injectedStream) Close() error {
	s.once.Do(func() { s.fc.mu.Lock(); s.fc.Injected++; s.fc.mu.Unlock() })
	return nil
}

var _ litefs.Client = (*FaultClient)(nil)

// NoLingerDial is a DialContext for http.Transport whose connections close with
// RST, so that the thousands of short-lived servers of a run do not park the
// sandbox's ephemeral ports in TIME_WAIT.
func NoLingerDial(ctx context.Context, network, addr string) (net.Conn, error) {
	var d net.Dialer
	c, err := d.DialContext(ctx, network, addr)
	if tc, ok := c.(*net.TCPConn); ok {
		_ = tc.SetLinger(0)
	}
	return c, err
}

// NewFaultClient returns a client with no faults armed.
func NewFaultClient() *FaultClient {
	inner := lhttp.NewClient()
	if tr, ok := inner.HTTPClient.Transport.(*http2.Transport); ok {
		// Thousands of short-lived nodes per run: closing with RST keeps the sandbox's
		// ephemeral ports out of TIME_WAIT. Nothing in a property depends on FIN vs RST.
		tr.DialTLS = func(network, addr string, _ *tls.Config) (net.Conn, error) {
			c, err := net.Dial(network, addr)
			if tc, ok := c.(*net.TCPConn); ok {
				_ = tc.SetLinger(0)
			}
			return c, err
		}
	}
	fc := &FaultClient{Inner: inner, streams: map[*faultStream]struct{}{}}
	fc.cond = sync.NewCond(&fc.mu)
	return fc
}

// Refuse makes Stream fail immediately (connection refused).
func (fc *FaultClient) Refuse(v bool) { fc.mu.Lock(); fc.refuse = v; fc.mu.Unlock() }

// CutNextAfter arms a cut of the next (or current) stream after n more bytes.
func (fc *FaultClient) CutNextAfter(n int64) {
	fc.mu.Lock()
	fc.cutAfter = n
	for s := range fc.streams {
		s.remaining = n
		s.armed = true
	}
	fc.mu.Unlock()
}

// CutAll closes every live stream now.
func (fc *FaultClient) CutAll() {
	fc.mu.Lock()
	var ss []*faultStream
	for s := range fc.streams {
		ss = append(ss, s)
	}
	fc.paused = false
	fc.cond.Broadcast()
	fc.mu.Unlock()
	for _, s := range ss {
		_ = s.Close()
	}
}

// Isolate refuses new streams and closes the live ones, and returns once the
// node's replication loop has come back and been turned away: that loop is one
// goroutine, so from then on nothing received earlier is still being applied. (A
// connection attempt that was already under way when Refuse was set can still
// produce a stream after the first cut; a frame that was already read is still
// applied after the cut.) A node that is not trying to connect at all - a primary,
// a stopped node - is given up on after a while.
func (fc *FaultClient) Isolate() {
	fc.mu.Lock()
	fc.refuse = true
	n0 := fc.refused
	fc.mu.Unlock()
	deadline := time.Now().Add(3 * time.Second)
	for quiet := 0; ; {
		fc.CutAll()
		fc.mu.Lock()
		n, turned := len(fc.streams), fc.refused > n0
		fc.mu.Unlock()
		if n == 0 {
			quiet++
		} else {
			quiet = 0
		}
		if quiet >= 3 && (turned || time.Now().After(deadline)) {
			return
		}
		time.Sleep(300 * time.Microsecond)
	}
}

// StreamCount returns how many streams the node has opened so far.
func (fc *FaultClient) StreamCount() int {
	fc.mu.Lock()
	defer fc.mu.Unlock()
	return fc.StreamsOpened
}

// LastStreamURL returns the advertise URL of the primary the node's most recent stream
// was opened to ("" if it never streamed).
func (fc *FaultClient) LastStreamURL() string {
	fc.mu.Lock()
	defer fc.mu.Unlock()
	return fc.streamURL
}

// Pause blocks stream reads (the replica lags) until Resume.
func (fc *FaultClient) Pause() { fc.mu.Lock(); fc.paused = true; fc.mu.Unlock() }

// Resume lets paused streams continue.
func (fc *FaultClient) Resume() {
	fc.mu.Lock()
	fc.paused = false
	fc.cond.Broadcast()
	fc.mu.Unlock()
}

var errInjected = fmt.Errorf("injected network fault")

func (fc *FaultClient) AcquireHaltLock(ctx context.Context, primaryURL string, nodeID uint64, name string, lockID int64) (*litefs.HaltLock, error) {
	hl, err := fc.Inner.AcquireHaltLock(ctx, primaryURL, nodeID, name, lockID)
	fc.mu.Lock()
	drop := fc.DropHaltResp > 0
	if drop {
		fc.DropHaltResp--
	}
	fc.mu.Unlock()
	if drop && err == nil {
		return nil, errInjected
	}
	return hl, err
}

func (fc *FaultClient) ReleaseHaltLock(ctx context.Context, primaryURL string, nodeID uint64, name string, lockID int64) error {
	err := fc.Inner.ReleaseHaltLock(ctx, primaryURL, nodeID, name, lockID)
	fc.mu.Lock()
	drop := fc.DropReleaseResp > 0
	if drop {
		fc.DropReleaseResp--
	}
	fc.mu.Unlock()
	if drop && err == nil {
		return errInjected
	}
	return err
}

func (fc *FaultClient) Commit(ctx context.Context, primaryURL string, nodeID uint64, name string, lockID int64, r io.Reader) error {
	fc.mu.Lock()
	dup := fc.DupCommit > 0
	if dup {
		fc.DupCommit--
	}
	drop := fc.DropCommitResp > 0
	if drop {
		fc.DropCommitResp--
	}
	fc.mu.Unlock()
	var body []byte
	if dup {
		body, _ = io.ReadAll(r)
		r = strings.NewReader(string(body))
	}
	err := fc.Inner.Commit(ctx, primaryURL, nodeID, name, lockID, r)
	if dup {
		_ = fc.Inner.Commit(ctx, primaryURL, nodeID, name, lockID, strings.NewReader(string(body)))
	}
	if drop && err == nil {
		return errInjected
	}
	return err
}

func (fc *FaultClient) Stream(ctx context.Context, primaryURL string, nodeID uint64, posMap map[string]ltx.Pos, filter []string) (litefs.Stream, error) {
	fc.mu.Lock()
	refuse := fc.refuse
	if refuse {
		fc.refused++
	}
	fc.mu.Unlock()
	if refuse {
		return nil, fmt.Errorf("dial: %w", syscall.ECONNREFUSED)
	}
	fc.mu.Lock()
	inj, injID := fc.Inject, fc.InjectClusterID
	fc.Inject = nil
	fc.mu.Unlock()
	if inj != nil {
		return &injectedStream{Reader: strings.NewReader(string(inj)), fc: fc, clusterID: injID}, nil
	}
	st, err := fc.Inner.Stream(ctx, primaryURL, nodeID, posMap, filter)
	if err != nil {
		return nil, err
	}
	fs := &faultStream{Stream: st, fc: fc}
	pr, pw := io.Pipe()
	fs.tapW = pw
	announced := map[string]ltx.Pos{}
	for k, v := range posMap {
		announced[k] = v
	}
	fc.mu.Lock()
	fc.StreamsOpened++
	fc.streamURL = primaryURL
	id := fc.StreamsOpened
	fc.events = append(fc.events, StreamEvent{Stream: id, Connect: announced})
	fc.mu.Unlock()
	go fc.tap(id, pr)
	fc.mu.Lock()
	if fc.cutAfter > 0 {
		fs.remaining, fs.armed = fc.cutAfter, true
		fc.cutAfter = 0
	}
	fc.streams[fs] = struct{}{}
	fc.mu.Unlock()
	return fs, nil
}

type faultStream struct {
	litefs.Stream
	fc        *FaultClient
	remaining int64
	armed     bool
	closed    bool
	tapW      *io.PipeWriter
}

func (s *faultStream) Read(p []byte) (int, error) {
	fc := s.fc
	fc.mu.Lock()
	for fc.paused && !s.closed {
		fc.cond.Wait()
	}
	if s.closed {
		fc.mu.Unlock()
		return 0, io.ErrClosedPipe
	}
	if s.armed {
		if s.remaining <= 0 {
			fc.mu.Unlock()
			_ = s.Close()
			return 0, errInjected
		}
		if int64(len(p)) > s.remaining {
			p = p[:s.remaining]
		}
	}
	fc.mu.Unlock()
	n, err := s.Stream.Read(p)
	if n > 0 && s.tapW != nil {
		_, _ = s.tapW.Write(p[:n])
	}
	fc.mu.Lock()
	fc.BytesRead += int64(n)
	if s.armed {
		s.remaining -= int64(n)
	}
	fc.mu.Unlock()
	return n, err
}

func (s *faultStream) Close() error {
	s.fc.mu.Lock()
	s.closed = true
	delete(s.fc.streams, s)
	s.fc.cond.Broadcast()
	s.fc.mu.Unlock()
	if s.tapW != nil {
		_ = s.tapW.Close()
	}
	return s.Stream.Close()
}

var _ = os.Remove

// SetOnOp installs a callback invoked before every file operation the node's
// writer connection for db issues (nil removes it).
func (n *CNode) SetOnOp(db string, fn func(op string)) {
	st, err := n.state(db)
	if err != nil {
		return
	}
	st.conn.OnOp = fn
}

// CloseConns closes every writer connection of the node (releasing its locks).
func (n *CNode) CloseConns() { n.closeConns() }

// CommitReturned reports whether the finalising operation of the node's
// current (or last) transaction on db has returned success.
func (n *CNode) CommitReturned(db string) bool {
	if st := n.states[db]; st != nil {
		return st.conn.CommitReturned
	}
	return false
}

// TryWrite is Write without any waiting: a busy lock is reported at once
// (used to probe that writers are excluded).
func (n *CNode) TryWrite(db string, tx pager.WalTx) (WriteResult, error) {
	st, err := n.state(db)
	if err != nil {
		return WriteResult{}, err
	}
	st.conn.BusyTimeout = time.Millisecond
	defer func() {
		if st2 := n.states[db]; st2 != nil {
			st2.conn.BusyTimeout = 0
		}
	}()
	return n.writeOnce(db, tx)
}

// ModelSize returns the page count of the image committed at the node's
// current position of db (at least 2, so that page 2 exists).
func (n *CNode) ModelSize(db string, cl *Cluster) uint32 {
	if img, ok := cl.Hist.Lookup(db, n.Pos(db)); ok && img.N() >= 2 {
		return img.N()
	}
	return 2
}

// Armed reports whether a one-shot fault of the halt / commit protocol is still pending.
func (fc *FaultClient) Armed() bool {
	fc.mu.Lock()
	defer fc.mu.Unlock()
	return fc.DropHaltResp > 0 || fc.DropCommitResp > 0 || fc.DropReleaseResp > 0 || fc.DupCommit > 0
}
