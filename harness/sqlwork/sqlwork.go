// Package sqlwork runs generated SQL workloads with a real SQLite (go-sqlite3)
// whose VFS is LiteFS's FUSE handler objects (package sqlvfs), and judges what
// LiteFS captured after every statement: the second, independent writer next
// to the pager simulator.
package sqlwork

import (
	"database/sql"
	"fmt"
	"os"
	"path/filepath"
	"strings"

	"github.com/superfly/litefs/verif/node"
	"github.com/superfly/litefs/verif/oracle"
	"github.com/superfly/litefs/verif/pbt"
	"github.com/superfly/litefs/verif/ref"
	"github.com/superfly/litefs/verif/sqlvfs"
	"pgregory.net/rapid"
)

const Name = "app.db"

// Op is one step of a workload.
type Op struct {
	Kind string `json:"k"` // insert, update, delete, begin, commit, rollback, vacuum, checkpoint, reopen, index, drop-index, pragma
	A    int    `json:"a,omitempty"`
	B    int    `json:"b,omitempty"`
	Size int    `json:"size,omitempty"`
	Arg  string `json:"arg,omitempty"`
}

type Plan struct {
	PageSize  int    `json:"page_size"`
	Mode      string `json:"mode"` // DELETE TRUNCATE PERSIST WAL
	Sync      string `json:"sync"`
	CacheSize int    `json:"cache_size"` // pages: small values force cache spills
	AutoVac   int    `json:"auto_vacuum"`
	AutoCkpt  int    `json:"wal_autocheckpoint"`
	Ops       []Op   `json:"ops"`
}

// Gen draws a workload for the given journal modes.
func Gen(t *rapid.T, modes []string) Plan {
	p := Plan{
		PageSize:  rapid.SampledFrom([]int{512, 1024, 4096}).Draw(t, "page_size"),
		Mode:      rapid.SampledFrom(modes).Draw(t, "mode"),
		Sync:      rapid.SampledFrom([]string{"OFF", "NORMAL", "FULL"}).Draw(t, "sync"),
		CacheSize: rapid.SampledFrom([]int{2, 5, 10, 200}).Draw(t, "cache_size"),
		AutoVac:   rapid.SampledFrom([]int{0, 0, 1, 2}).Draw(t, "auto_vacuum"),
		AutoCkpt:  rapid.SampledFrom([]int{0, 3, 20, 1000}).Draw(t, "autockpt"),
	}
	n := rapid.IntRange(3, 40).Draw(t, "nops")
	inTx := false
	for i := 0; i < n; i++ {
		op := Op{A: rapid.IntRange(1, 60).Draw(t, "a"), B: rapid.IntRange(0, 20).Draw(t, "b")}
		switch k := rapid.IntRange(0, 29).Draw(t, "kind"); {
		case k < 10:
			op.Kind = "insert"
			op.Size = rapid.SampledFrom([]int{0, 10, 300, 2000, 9000, 40000}).Draw(t, "size")
			op.B = rapid.IntRange(1, 8).Draw(t, "rows")
		case k < 15:
			op.Kind = "update"
			op.Size = rapid.SampledFrom([]int{0, 10, 300, 5000}).Draw(t, "size")
		case k < 19:
			op.Kind = "delete"
		case k < 22:
			if inTx {
				op.Kind = rapid.SampledFrom([]string{"commit", "commit", "rollback"}).Draw(t, "end")
				inTx = false
			} else {
				op.Kind = "begin"
				op.Arg = rapid.SampledFrom([]string{"", "IMMEDIATE", "EXCLUSIVE"}).Draw(t, "begin")
				inTx = true
			}
		case k < 24:
			op.Kind = "vacuum"
		case k < 26:
			op.Kind = "checkpoint"
			op.Arg = rapid.SampledFrom([]string{"PASSIVE", "FULL", "RESTART", "TRUNCATE"}).Draw(t, "ckpt")
		case k < 27:
			op.Kind = "reopen"
		case k < 28:
			op.Kind = rapid.SampledFrom([]string{"index", "drop-index"}).Draw(t, "ix")
		default:
			op.Kind = "pragma"
			op.Arg = rapid.SampledFrom([]string{"incremental_vacuum(5)", "optimize", "user_version=7", "application_id=99", "wal_checkpoint"}).Draw(t, "pragma")
		}
		if inTx && (op.Kind == "vacuum" || op.Kind == "reopen") {
			op.Kind = "delete"
		}
		p.Ops = append(p.Ops, op)
	}
	if inTx {
		p.Ops = append(p.Ops, Op{Kind: "commit"})
	}
	return p
}

// SQL renders the operation.
func (op Op) SQL() string {
	switch op.Kind {
	case "insert":
		var sb strings.Builder
		sb.WriteString("INSERT INTO t(k,v) VALUES ")
		for i := 0; i < op.B; i++ {
			if i > 0 {
				sb.WriteByte(',')
			}
			fmt.Fprintf(&sb, "(%d, randomblob(%d))", op.A+i, op.Size)
		}
		return sb.String()
	case "update":
		return fmt.Sprintf("UPDATE t SET k=k+1, v=randomblob(%d) WHERE id %% 7 = %d", op.Size, op.A%7)
	case "delete":
		return fmt.Sprintf("DELETE FROM t WHERE id %% %d = %d", 2+op.A%5, op.B%2)
	case "begin":
		return "BEGIN " + op.Arg
	case "commit":
		return "COMMIT"
	case "rollback":
		return "ROLLBACK"
	case "vacuum":
		return "VACUUM"
	case "checkpoint":
		return "PRAGMA wal_checkpoint(" + op.Arg + ")"
	case "index":
		return "CREATE INDEX IF NOT EXISTS tk ON t(k)"
	case "drop-index":
		return "DROP INDEX IF EXISTS tk"
	case "pragma":
		return "PRAGMA " + op.Arg
	}
	return ""
}

type state struct {
	pos ref.Pos
	img *ref.Image
}

// Run executes the plan on a fresh single-node primary and fails the case with
// signatures prefixed by id ("C02", "C03").
func Run(c *pbt.Case, p Plan, id string) {
	dir := c.TempDir()
	n, err := node.NewPrimary(dir, node.Options{})
	if err != nil {
		c.Failf(id+"/setup", "%v", err)
	}
	c.Cleanup(func() { _ = n.Close() })
	sqlvfs.Use(n.Store, n.M.Root)
	c.Labelf("mode:%s", p.Mode)
	var db *sql.DB
	open := func() {
		var err error
		if db, err = sql.Open("sqlite3", "file:/"+Name+"?vfs=litefs&_busy_timeout=2000"); err != nil {
			c.Failf(id+"/setup", "%v", err)
		}
		db.SetMaxOpenConns(1)
		for _, q := range []string{
			"PRAGMA temp_store=MEMORY",
			fmt.Sprintf("PRAGMA cache_size=%d", p.CacheSize),
			"PRAGMA synchronous=" + p.Sync,
			fmt.Sprintf("PRAGMA wal_autocheckpoint=%d", p.AutoCkpt),
		} {
			if _, err := db.Exec(q); err != nil {
				c.Failf(id+"/sqlite-error", "%s: %v", q, err)
			}
		}
	}
	exec := func(q string) error {
		_, err := db.Exec(q)
		return err
	}
	cur := state{img: ref.NewImage(uint32(p.PageSize))}
	dbDir := n.DBDir(Name)
	commits, multi, shrinks := 0, 0, 0

	// judge compares what LiteFS recorded with what SQLite left in the files.
	midTx := false
	// allowNoop: a ROLLBACK after a cache spill ends with SQLite finalising its journal,
	// which LiteFS records as a transaction. Its pages are what the rollback left in
	// the file: the pre-transaction content, except for pages SQLite does not journal
	// because their content is irrelevant to it (free pages). The bytes may therefore
	// differ from before; what is checked is that the recorded file maps the previous
	// image onto exactly the bytes that are there now.
	allowNoop := false
	judge := func(i int, what string, mustNotMove bool) {
		if ex := n.Exits(); len(ex) > 0 {
			c.Failf(id+"/store-exit", "step %d (%s): Store.Exit(%v)", i, what, ex)
		}
		pos := n.Pos(Name)
		img, err := ref.LogicalImage(dbDir)
		if err != nil {
			c.Failf(id+"/harness", "step %d (%s): reading the database files: %v", i, what, err)
		}
		if img == nil {
			img = ref.NewImage(uint32(p.PageSize))
		}
		if hp := ref.HeaderPageN(img.Page(1)); hp > 0 && hp < img.N() {
			img.Resize(hp) // the file may be longer than the database between a shrinking commit and SQLite's truncate
		}
		switch {
		case pos == cur.pos:
			// (inside an explicit transaction the files legitimately hold uncommitted
			// pages after a cache spill; they are compared again when it ends)
			if d := img.Diff(cur.img); d != "" && !midTx {
				c.Failf(id+"/image-changed-without-position", "step %d (%s): the position is still %s but the database SQLite sees changed: %s", i, what, pos, d)
			}
			if midTx {
				img = cur.img
			}
		case pos.TXID > cur.pos.TXID:
			if mustNotMove && !allowNoop {
				c.Failf(id+"/position-moved", "step %d (%s): the statement commits nothing but the position went from %s to %s", i, what, cur.pos, pos)
			}
			// one statement may be several SQLite transactions: walk the chain
			prev, prevImg := cur.pos, cur.img
			for tx := cur.pos.TXID + 1; tx <= pos.TXID; tx++ {
				f, err := ref.DecodeLTXFile(filepath.Join(n.LTXDir(Name), fmt.Sprintf("%016x-%016x.ltx", tx, tx)))
				if err != nil {
					c.Failf(id+"/ltx-unreadable", "step %d (%s): transaction file %d: %v", i, what, tx, err)
				}
				next := ref.Pos{TXID: tx, Checksum: uint64(f.Trailer.PostApplyChecksum)}
				want := prevImg.Apply(f)
				if tx == pos.TXID {
					want = img
				}
				if sig, msg := oracle.CheckLTX(n.LTXDir(Name), prev, next, prevImg, want); sig != "" {
					c.Failf(id+"/"+sig, "step %d (%s): %s", i, what, msg)
				}
				prev, prevImg = next, want
				commits++
			}
			if prev != pos {
				c.Failf(id+"/ltx-post-checksum", "step %d (%s): the chain of transaction files ends at %s, the position is %s", i, what, prev, pos)
			}
			if img.N() < cur.img.N() {
				shrinks++
			}
		default:
			c.Failf(id+"/position-jump", "step %d (%s): the position went backwards from %s to %s", i, what, cur.pos, pos)
		}
		if !midTx { // (inside a transaction the files hold uncommitted pages)
			if sig, msg := n.Monitors(Name); sig != "" {
				c.Failf(sig, "step %d (%s): %s", i, what, msg)
			}
		}
		cur = state{pos: pos, img: img}
	}

	open()
	setup := []string{
		fmt.Sprintf("PRAGMA page_size=%d", p.PageSize),
		fmt.Sprintf("PRAGMA auto_vacuum=%d", p.AutoVac),
		"PRAGMA journal_mode=" + p.Mode,
		"CREATE TABLE t(id INTEGER PRIMARY KEY, k INT, v BLOB)",
	}
	for i, q := range setup {
		if err := exec(q); err != nil {
			c.Failf(id+"/sqlite-error", "setup %q: %v\n%s", q, err, tail(sqlvfs.Trace))
		}
		judge(-len(setup)+i, q, false)
	}
	inTx := false
	for i, op := range p.Ops {
		q := op.SQL()
		c.Notef("step %d %s", i, q)
		if op.Kind == "reopen" {
			_ = db.Close()
			open()
			judge(i, "reopen", true)
			continue
		}
		if op.Kind == "checkpoint" && (p.Mode != "WAL" || inTx) {
			continue
		}
		err := exec(q)
		if err != nil {
			// errors SQLite is entitled to raise on its own
			msg := err.Error()
			if strings.Contains(msg, "cannot VACUUM from within a transaction") || strings.Contains(msg, "within a transaction") || strings.Contains(msg, "no transaction is active") ||
				(op.Kind == "pragma" && strings.Contains(msg, "locked")) { // e.g. a checkpoint pragma inside the connection's own transaction

				continue
			}
			c.Failf(id+"/sqlite-error", "step %d %q: %v\n%s", i, q, err, tail(sqlvfs.Trace))
		}
		switch op.Kind {
		case "begin":
			inTx, midTx = true, true
			judge(i, q, true)
		case "commit", "rollback":
			inTx, midTx = false, false
			allowNoop = op.Kind == "rollback"
			judge(i, q, op.Kind == "rollback")
			allowNoop = false
			if op.Kind == "commit" {
				multi++
			}
		case "checkpoint":
			judge(i, q, true) // a checkpoint moves pages between files, never the position
		default:
			// inside BEGIN..COMMIT nothing may be published; in autocommit mode the
			// statement is its own transaction
			judge(i, q, inTx)
		}
	}
	_ = db.Close()
	judge(len(p.Ops), "close", true)

	// end to end: the chain LiteFS recorded, materialised and opened by a plain
	// SQLite, is a sound database
	if cur.pos.TXID > 0 {
		out := filepath.Join(c.TempDir(), "materialised.db")
		if err := os.WriteFile(out, cur.img.Bytes(), 0o666); err != nil {
			c.Failf(id+"/harness", "%v", err)
		}
		plain, err := sql.Open("sqlite3", "file:"+out+"?mode=ro")
		if err == nil {
			var res string
			if err := plain.QueryRow("PRAGMA integrity_check").Scan(&res); err != nil || res != "ok" {
				c.Failf(id+"/materialised-database-unsound", "the image at %s fails integrity_check: %q %v", cur.pos, res, err)
			}
			_ = plain.Close()
		}
	}
	c.Observe("commits", int64(commits))
	if commits >= 3 && (multi > 0 || shrinks > 0) {
		c.NonTrivial()
	}
}

func tail(tr []string) string {
	if len(tr) > 25 {
		tr = tr[len(tr)-25:]
	}
	return strings.Join(tr, "\n")
}
