// Package oracle holds predicates shared by several property packages.
package oracle

import (
	"fmt"
	"path/filepath"

	"github.com/superfly/litefs/verif/ref"
	"github.com/superfly/ltx"
)

// CheckLTX verifies the single-transaction file that took a database from prev
// to pos: header bookkeeping, page ordering and bounds, and that applying it to
// the image at the previous position yields want (the image the writer
// produced), whose independent checksum must equal the trailer's and the
// position's. It returns a signature suffix and a message, or "".
func CheckLTX(dir string, prev, pos ref.Pos, prevImg, want *ref.Image) (sig, msg string) {
	path := filepath.Join(dir, ltx.FormatFilename(ltx.TXID(pos.TXID), ltx.TXID(pos.TXID)))
	f, err := ref.DecodeLTXFile(path)
	if err != nil {
		return "ltx-unreadable", fmt.Sprintf("transaction file for %s: %v", pos, err)
	}
	h := f.Header
	if uint64(h.MinTXID) != pos.TXID || uint64(h.MaxTXID) != pos.TXID {
		return "ltx-txid", fmt.Sprintf("file covers %d-%d, position is %s", h.MinTXID, h.MaxTXID, pos)
	}
	if uint64(h.PreApplyChecksum) != prev.Checksum && !(prev.TXID == 0 && h.PreApplyChecksum == 0) {
		return "ltx-pre-checksum", fmt.Sprintf("pre-apply checksum %016x != previous position's checksum %016x", uint64(h.PreApplyChecksum), prev.Checksum)
	}
	lock := ref.LockPgno(h.PageSize)
	var last uint32
	for _, pgno := range f.Order {
		if pgno <= last {
			return "ltx-page-order", fmt.Sprintf("page %d follows page %d", pgno, last)
		}
		if pgno > h.Commit {
			return "ltx-page-beyond-commit", fmt.Sprintf("page %d beyond commit size %d", pgno, h.Commit)
		}
		if pgno == lock {
			return "ltx-lock-page", fmt.Sprintf("lock page %d present in transaction file", pgno)
		}
		last = pgno
	}
	got := prevImg.Apply(f)
	if h.Commit != want.N() {
		return "ltx-commit-size", fmt.Sprintf("commit size %d, SQLite's image has %d pages", h.Commit, want.N())
	}
	if d := got.Diff(want); d != "" {
		return "ltx-image", fmt.Sprintf("previous image + transaction file != image SQLite sees: %s", d)
	}
	if sum := want.Checksum(); sum != uint64(f.Trailer.PostApplyChecksum) || sum != pos.Checksum {
		return "ltx-post-checksum", fmt.Sprintf("independent checksum %016x, trailer %016x, position %016x", sum, uint64(f.Trailer.PostApplyChecksum), pos.Checksum)
	}
	return "", ""
}
