#!/bin/sh
# MANIFEST.setup_cmd: builds every test binary once (offline) so the checks start warm.
set -e
cd "$(dirname "$0")"
export GOFLAGS=-mod=mod GOPROXY=off GOSUMDB=off GOTOOLCHAIN=local
exec ./check --build
